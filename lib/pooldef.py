"""Pool v0: which C++ types exist in the executor (DESIGN.md Appendix A)."""
from pool import *  # noqa


def from_schema_scalar(S, named):
    k = S["k"]
    if k == "int":
        return Int(S["w"], S["s"])
    if k == "flt":
        return Flt(S["w"])
    if k == "str":
        return Str(S["cw"])
    if k == "struct":
        return named["SA"]
    raise ValueError(k)


def build_pool():
    P = []
    u8, u16, u32, u64 = Int(1, False), Int(2, False), Int(4, False), Int(8, False)
    i8, i16, i32, i64 = Int(1, True), Int(2, True), Int(4, True), Int(8, True)
    b, c, st, ci = Bool(), Char(), SizeT(), CInt()
    f32, f64 = Flt(4), Flt(8)
    s8, s16, s32, ws = Str(1), Str(2), Str(4), Str(4, 'w')
    scalars = [b, c, u8, u16, u32, u64, i8, i16, i32, i64, st, ci, f32, f64]
    P += scalars
    # enums
    eu8, ei16, eu32, ei64, eplain = Enum(1, False), Enum(2, True), Enum(4, False), Enum(8, True), Enum(4, True, False)
    P += [eu8, ei16, eu32, ei64, eplain]
    # enumerations over plain char and bool are encoded as char / bool (U8 class for 128..255; TRUE / FALSE only)
    echar, ebool = EnumOver('char'), EnumOver('bool')
    # (as scalars, tuple / optional / pair members: their schema is that of char / bool, which is exact everywhere except
    # as the element of a sequence, where an enumeration is not an "integral type" and the packed form does not apply)
    P += [echar, ebool, Tup(echar, ebool, eu8), Opt(echar), Pair(ebool, echar)]
    err8, erri = ErrEnum(1, False), ErrEnum(4, True)
    # strings
    P += [s8, s16, s32, ws]
    # vectors
    P += [Vec(u8), Vec(u16), Vec(i16), Vec(u32), Vec(u64), Vec(c), Vec(s8), Vec(f32), Vec(eu8), Vec(Vec(u16)), Vec(Opt(u8))]
    # arrays
    P += [Arr(u8, 4), Arr(i32, 3), Arr(s8, 2), Arr(f32, 2), Arr(b, 3), Arr(u64, 2)]
    P += [CArr(u16, 3), CArr(c, 8), CArr(s8, 2), CArr(i64, 2)]
    # container x element matrix: every sequence spelling over the element classes not covered above
    P += [CArr(f32, 4), CArr(f64, 3), CArr(b, 2), CArr(eu8, 2), CArr(Opt(u8), 2), CArr(Vec(u8), 2), CArr(u8, 130),
          Arr(f64, 3), Arr(c, 3), Arr(ei16, 2), Arr(Opt(u8), 2), Arr(Vec(u8), 2), Arr(i8, 130),
          Vec(f64), Vec(i8), Vec(i64), Vec(ei16), Vec(Pair(u8, s8)), Vec(Arr(u8, 2)), Vec(Tup(u8, u8))]
    # pairs / tuples
    P += [Pair(u8, s8), Tup(), Tup(i32), Tup(u8, s8, Vec(u8)), Tup(Tup(u8, i8), u16),
          Tup(u16, u16), Tup(f64, f64)]
    # wide tuples / pairs (objects of 128 bytes and more in memory, five and more members)
    P += [Tup(s8, s8, s8, s8, s8), Tup(Arr(u64, 20), u8), Pair(Arr(u64, 17), s8), Tup(u8, u16, u32, u64, i8, i16, i32, i64, f32, f64, s8, b)]
    # maps
    P += [Map(u32, s8), Map(u8, Vec(u8)), UMap(s8, i32), UMap(u16, u8)]
    # reference wrappers
    P += [Ref(i32), Ref(s8)]
    # optional / result / status
    P += [Opt(u8), Opt(s8), Opt(Vec(u8)), Opt(i64), Res(err8, u32), Res(erri, s8), StatusOf(u16), Res(err8, Vec(u8))]
    # variants
    P += [EmptyVar(), Var(i32), Var(i32, s8), Var(u8, s8, Vec(u8), f32), Var(Var(u8, s8), u16)]
    # handles
    hd, hf, h16 = Hnd('default'), Hnd('file'), Hnd('tag16')
    P += [hd, hf, h16]
    # structures
    SA = Struct('SA', [u8, s8])
    SB = Struct('SB', [i32, Vec(u16), Opt(s8)], style='private')
    SC = Struct('SC', [u16, f32], style='external')
    SE = Struct('SEmpty', [])
    SN = Struct('SNest', [SA, Tup(u8, SC), u64])
    SArr = Struct('SArr', [CArr(u16, 3), CArr(s8, 2), Arr(u8, 4)])
    P += [SA, SB, SC, SE, SN, SArr, Vec(SA), CArr(SA, 2), Opt(SA), Map(u16, SA)]
    # class templates: annotated inside (NOP_STRUCTURE with the abbreviated name) and from outside by the base template
    # name (NOP_EXTERNAL_STRUCTURE), also with a logical buffer; unbounded logical buffers (internal and external tag; the library requires a one-element array, the idiom for a header
    # followed by a run-time sized payload - the pool only uses the element that is really there)
    STi = Struct('STi', [u16, s8, Arr(i32, 2)], style='template')
    STe = Struct('STe', [i64, Vec(u8)], style='external_template')
    STl = Struct('STl', [u8, LBuf(u16, 5, 4, False, 'c')], style='external_template')
    SU0 = Struct('SU0', [u8, LBuf(u8, 1, 4, False, 'c', unb=True)])
    SU1 = Struct('SU1', [LBuf(u16, 1, 2, False, 'std', unb=True)], style='external')
    SU2 = Struct('SU2', [LBuf(i32, 1, 8, False, 'c', unb=True)], style='external_template')
    P += [STi, STe, STl, SU0, SU1, SU2, Vec(STi), Opt(STe)]
    trk = Tracked()
    P += [trk, Vec(trk), Opt(trk), Res(err8, trk), Var(trk, s8), Arr(trk, 2), Map(u8, trk)]
    # tracked alternatives at higher indices than their neighbours (switching to a lower alternative must destroy them)
    P += [Var(s8, trk), Var(u8, trk, Vec(trk)), Tup(trk, Opt(trk)), Pair(u8, trk)]
    # logical buffers: every size-member type with a small and a >=128-element buffer
    k = 0
    for (sw, ss) in [(1, False), (2, False), (4, False), (8, False), (1, True), (2, True), (4, True), (8, True)]:
        P.append(Struct('SL%d' % k, [LBuf(u8, 4, sw, ss, 'c')])); k += 1
        P.append(Struct('SL%d' % k, [u8, LBuf(u32, 100, sw, ss, 'std')])); k += 1
    P.append(Struct('SL%d' % k, [LBuf(s8, 3, 4, False, 'c'), u8])); k += 1
    P.append(Struct('SL%d' % k, [LBuf(u16, 200, 1, False, 'c')])); k += 1
    P.append(Struct('SL%d' % k, [LBuf(u8, 300, 2, False, 'std')])); k += 1
    P.append(Struct('SL%d' % k, [LBuf(SA, 2, 4, False, 'std')])); k += 1
    # logical buffers of non-integral elements with room for >= 128 elements, narrow / signed size members
    for (sw, ss) in [(1, False), (2, True), (4, True), (8, True), (2, False)]:
        P.append(Struct('SL%d' % k, [LBuf(f32, 200, sw, ss, 'c' if k % 2 else 'std')])); k += 1
    P.append(Struct('SL%d' % k, [LBuf(s8, 130, 1, False, 'std'), u8])); k += 1
    P.append(Struct('SL%d' % k, [LBuf(f64, 3, 1, False, 'c')])); k += 1
    P.append(Struct('SL%d' % k, [LBuf(s8, 2, 2, True, 'c')])); k += 1
    # vector counterparts of the logical-buffer structures (fungible): a peer may legitimately send more elements
    # than the reader's array holds (SV<k> is SL<k> with std::vector members in place of the logical buffers)
    lb_structs = [t for t in P if t.tid.startswith('SL')]
    for t in lb_structs:
        members = []
        for m in t.schema["m"]:
            members.append(m)
        vm = []
        for i, m in enumerate(t.schema["m"]):
            if m["k"] == "lbuf":
                vm.append(Vec(from_schema_scalar(m["e"], {"SA": SA})))
            else:
                vm.append(from_schema_scalar(m, {"SA": SA}))
        P.append(Struct('SV' + t.tid[2:], vm))
    # value wrappers
    P += [Wrap('WU32', u32), Wrap('WStr', s8), Wrap('WLb', LBuf(u8, 8, 4, False, 'c')), Wrap('WVec', Vec(i16))]
    # tables
    TA = Table('TA', None, [(0, True, u8), (1, True, s8)])
    TB = Table('TB', 0x1122334455667788, [(0, True, u32), (5, False, s8), (127, True, Vec(u8)), (128, True, SA)])
    TC = Table('TC', 0xfedcba9876543210, [(1 << 32, True, i64), (1 << 63, True, u16)])
    TO = Table('TOptEntry', 3, [(0, True, Opt(u8))])
    TW = Table('TW', 11, [(0, True, ws), (1, True, s16), (2, True, Vec(u32)), (3, True, Arr(u16, 3)), (4, True, f64)])
    P += [TW]
    TN = Table('TN', None, [(0, True, TA), (1, True, Vec(TA)), (2, True, u16)])
    TH = Table('TH', 7, [(0, True, hd), (1, True, u8), (2, True, Vec(hd))])
    P += [TA, TB, TC, TO, TN, TH, Vec(TA), Struct('STab', [u8, TA, u8]), Opt(TA)]
    # table entries x element classes: an entry's declared size comes from Size() of its value and is the only place
    # where a size estimate reaches the wire, so every encoding family also appears as an entry
    slf = next(x for x in P if x.tid.startswith('SL') and x.schema["m"][0].get("e", {}).get("k") == "flt")
    TM1 = Table('TM1', 21, [(0, True, b), (1, True, c), (2, True, u16), (3, True, i32), (4, True, u64), (5, True, i64),
                            (6, True, f32), (7, True, f64), (8, True, eu8), (9, True, s16), (10, True, i8), (11, True, ei64)])
    TM2 = Table('TM2', 22, [(0, True, Vec(f32)), (1, True, Arr(f32, 2)), (2, True, Pair(u8, f32)), (3, True, Tup(f32, f64)),
                            (4, True, Map(u8, f32)), (5, True, Var(f32, s8)), (6, True, Res(err8, f32)), (7, True, SC),
                            (8, True, slf), (9, True, Vec(s8)), (10, True, UMap(u16, u8)), (11, True, Wrap('WF32', f32))])
    TM3 = Table('TM3', 23, [(0, True, Tup(s8, s8, s8, s8, s8)), (1, True, Arr(s8, 5)), (2, True, Pair(Arr(u64, 17), s8)),
                            (3, True, Struct('SWide', [s8, s8, s8, s8, s8, u64, u64]))])
    P += [TM1, TM2, TM3, Vec(TM1), Struct('STM2', [u8, TM2])]
    # handles in containers
    P += [Vec(hd), Opt(hd), Var(hd, u8), Struct('SH', [u8, hd, hf, s8]), Tup(hd, hd)]
    # handles of every policy as table entries (their references are sized pessimistically, so the entry is padded), and
    # a handle-bearing table nested in an entry of another table (padding inside padding)
    TH2 = Table('TH2', 24, [(0, True, h16), (1, True, hf), (2, True, Vec(hf)), (3, True, Struct('SH2', [u8, h16]))])
    THN = Table('THN', 25, [(0, True, TH), (1, True, s8), (2, True, Vec(TH))])
    # logical buffers as table entries (multi-byte elements, narrow size members, 32 / 100 / 200 elements: the element
    # count and the byte length fall into different size classes)
    slbs = [x for x in P if x.tid in ('SL1', 'SL3', 'SL17', 'SL18')]
    TLB = Table('TLB', 26, [(i, True, x) for i, x in enumerate(slbs)])
    P += [TH2, THN, TLB]
    # version pool of Tables.tla (pool/tables.json, emitted by TLC): every definition reachable within 4 steps
    import json as _json, os as _os
    tj = _os.path.join(_os.path.dirname(_os.path.dirname(_os.path.abspath(__file__))), 'pool', 'tables.json')
    if _os.path.exists(tj):
        defs = _json.load(open(tj))["defs"]
        vts = [from_schema(d) for d in defs]
        P += vts
        # a few placements inside structures / vectors / other tables
        for t in vts[3::40]:
            P += [Struct('S_' + t.tid, [u8, t, u16]), Vec(t)]
    # de-duplicate by tid preserving order
    seen, out = set(), []
    for t in P:
        if t.tid not in seen:
            seen.add(t.tid)
            out.append(t)
    return out


if __name__ == '__main__':
    import sys
    ts = build_pool()
    print(len(ts), 'types')
