"""Stimulus generation: abstract values for pool schemas. Generators never
compute expected results; they only produce inputs (DESIGN.md 5.6)."""
import random
import struct

from pool import word


def int_boundaries(w, s):
    bits = 8 * w
    lo, hi = (-(1 << (bits - 1)), (1 << (bits - 1)) - 1) if s else (0, (1 << bits) - 1)
    cands = [0, 1, 2, 63, 64, 65, 126, 127, 128, 129, 254, 255, 256, 257, 32767, 32768, 65535, 65536, 65537,
             (1 << 31) - 1, 1 << 31, (1 << 32) - 1, 1 << 32, (1 << 32) + 1, (1 << 63) - 1, 1 << 63, (1 << 64) - 1,
             -1, -2, -63, -64, -65, -66, -127, -128, -129, -130, -255, -256, -32767, -32768, -32769, -65536,
             -(1 << 31) + 1, -(1 << 31), -(1 << 31) - 1, -(1 << 32), -(1 << 63) + 1, -(1 << 63),
             0x0807060504030201 & ((1 << bits) - 1), lo, hi, lo + 1, hi - 1]
    out, seen = [], set()
    for c in cands:
        if lo <= c <= hi and c not in seen:
            seen.add(c)
            out.append(c)
    return out


def float_words(w, rng):
    if w == 4:
        specials = [0x00000000, 0x80000000, 0x3F800000, 0x7F800000, 0xFF800000, 0x7FC00000, 0x7FC00001, 0xFFC12345,
                    0x7F800001, 0x00000001, 0x007FFFFF, 0x00800000, 0x7F7FFFFF, 0x04030201]
    else:
        specials = [0, 1 << 63, 0x3FF0000000000000, 0x7FF0000000000000, 0xFFF0000000000000, 0x7FF8000000000000,
                    0x7FF8000000000001, 0xFFF8123456789ABC, 0x7FF0000000000001, 1, 0x000FFFFFFFFFFFFF,
                    0x0010000000000000, 0x7FEFFFFFFFFFFFFF, 0x0807060504030201]
    return [word(x, w) for x in specials] + [word(rng.getrandbits(8 * w), w) for _ in range(2)]


def str_value(cw, n, rng, ascii_only=False):
    b = []
    for _ in range(n):
        c = rng.choice([65, 97, 48, 0, 127, 128, 255, rng.getrandbits(8 * cw)]) if not ascii_only else rng.randrange(32, 127)
        c &= (1 << (8 * cw)) - 1
        b.extend(word(c, cw))
    return {"cw": cw, "b": b}


class Gen:
    """values(S) -> list of abstract values (deterministic core first, then random)."""

    def __init__(self, seed=0, big=False, nrandom=2):
        self.rng = random.Random(seed)
        self.big = big
        self.nrandom = nrandom

    def ints(self, w, s):
        vs = int_boundaries(w, s)
        bits = 8 * w
        for _ in range(self.nrandom):
            r = self.rng.getrandbits(bits)
            vs.append(r - (1 << bits) if s and r >= (1 << (bits - 1)) else r)
        return [word(v, w) for v in vs]

    def values(self, S, depth=0):
        k = S["k"]
        rng = self.rng
        if k == "bool":
            return [[0], [1]]
        if k == "char":
            return [[c] for c in (0, 1, 65, 127, 128, 200, 255)]
        if k in ("int", "enum"):
            return self.ints(S["w"], S["s"])
        if k == "flt":
            return float_words(S["w"], rng)
        if k == "str":
            lens = [0, 1, 2, 5]
            cw = S["cw"]
            if depth <= 1:
                # character counts and byte counts on both sides of the 127/128 and 255/256 class edges
                lens += sorted(set([127 // cw, 127 // cw + 1, 255 // cw, 255 // cw + 1, 127, 128, 255, 256]))
            if self.big and depth == 0:
                lens += [300, 65535 // cw, 65536 // cw + 1]
            return [str_value(cw, n, rng) for n in lens]
        if k in ("vec",):
            ev = self.values(S["e"], depth + 1)
            lens = [0, 1, 3]
            if S["e"]["k"] in ("int", "char", "bool"):
                esz = S["e"].get("w", 1)
                if depth <= 2:
                    lens += sorted(set([127 // esz, 127 // esz + 1, 255 // esz, 255 // esz + 1, 127, 128]))
                if self.big and depth == 0:
                    lens += [255, 256, 65536 // esz + 1]
            elif self.big and depth == 0:
                lens += [127, 128, 130, 255, 256]
            out = []
            for i, n in enumerate(lens):
                out.append({"n": [ev[(i + j) % len(ev)] for j in range(n)]})
            return out
        if k in ("arr", "carr"):
            ev = self.values(S["e"], depth + 1)
            return [{"n": [ev[(i + j) % len(ev)] for j in range(S["n"])]} for i in range(min(4, max(2, len(ev))))]
        if k == "lbuf":
            ev = self.values(S["e"], depth + 1)
            cap = S["n"]
            counts = sorted(set([0, 1, min(cap, 2), cap] + ([127, 128, 129, 130] if cap >= 130 else [])
                                + ([63, 64, 65] if cap >= 65 else []) + ([31, 32, 33] if cap >= 33 else [])))
            counts = [c for c in counts if c <= cap]
            out = []
            for i, n in enumerate(counts):
                out.append({"n": [ev[(i + j) % len(ev)] for j in range(n)], "c": word(n, S["sw"])})
            return out
        if k in ("pair", "tup", "struct"):
            ms = [self.values(m, depth + 1) for m in S["m"]]
            if not ms:
                return [{"m": []}]
            K = min(6, max(len(x) for x in ms))
            return [{"m": [x[(i * 7 + j) % len(x)] for j, x in enumerate(ms)]} for i in range(K)]
        if k in ("map", "umap"):
            ks = self.values(S["key"], depth + 1)
            vs = self.values(S["val"], depth + 1)
            out = []
            for n in (0, 1, 3):
                keys, kv = [], []
                for j in range(len(ks)):
                    if len(kv) >= n:
                        break
                    kk = ks[(j * 3 + n) % len(ks)]
                    if kk not in keys:
                        keys.append(kk)
                        kv.append([kk, vs[(j + n) % len(vs)]])
                out.append({"kv": kv})
                if len(kv) > 1:
                    # the same pairs inserted in the opposite order (the iteration order of an unordered_map, and
                    # hence the order on the wire, depends on it)
                    out.append({"kv": kv[::-1]})
            return out
        if k in ("ref", "wrap"):
            return self.values(S["e"], depth)
        if k == "opt":
            ev = self.values(S["e"], depth + 1)
            return [{"o": []}] + [{"o": [v]} for v in ev[:5]]
        if k == "res":
            ev = self.values(S["e"], depth + 1)
            errs = [v for v in self.ints(S["err"]["w"], S["err"]["s"]) if any(v)]
            return [{"r": "none"}] + [{"r": "err", "e": e} for e in errs] + [{"r": "val", "v": v} for v in ev[:4]]
        if k == "emptyvar":
            return [{"ev": True}]
        if k == "var":
            out = [{"i": word(-1, 4)}]
            for i, m in enumerate(S["m"]):
                mv = self.values(m, depth + 1)
                out += [{"i": word(i, 4), "v": v} for v in mv[:3]]
            return out
        if k == "hnd":
            return [{"h": word(v, 8)} for v in (-1, 0, 5, 77, (1 << 31) - 1)]
        if k == "table":
            ents = S["ents"]
            evs = [self.values(e["e"], depth + 1) if e["act"] else [None] for e in ents]
            out = []
            patterns = [[True] * len(ents), [False] * len(ents)] + [[(i + j) % 2 == 0 for j in range(len(ents))] for i in range(2)]
            # every entry value is used at least once (all entries present), then the presence patterns
            kmax = min(16, max([len(x) for x in evs] + [1]))
            for i in range(kmax):
                t = []
                for j, e in enumerate(ents):
                    if e["act"]:
                        t.append({"id": e["id"], "p": True, "v": evs[j][(i + (j if i % 2 else 0)) % len(evs[j])]})
                    else:
                        t.append({"id": e["id"], "p": False})
                out.append({"t": t})
            for pi, pat in enumerate(patterns):
                t = []
                for j, e in enumerate(ents):
                    if e["act"] and pat[j]:
                        t.append({"id": e["id"], "p": True, "v": evs[j][(pi + j) % len(evs[j])]})
                    else:
                        t.append({"id": e["id"], "p": False})
                out.append({"t": t})
            return out
        raise ValueError(k)


def overfull_lbuf_values(S, gen):
    """Values with a size member above capacity somewhere (the writer must refuse them)."""
    out = []
    if S["k"] in ("struct",):
        base = gen.values(S)[0]
        for j, m in enumerate(S["m"]):
            if m["k"] == "lbuf" and not m["unb"]:
                ev = gen.values(m["e"], 1)
                for over in (m["n"] + 1, (1 << (8 * m["sw"] - (1 if m["ss"] else 0))) - 1):
                    if over > m["n"]:
                        v = {"m": list(base["m"])}
                        v["m"][j] = {"n": [ev[i % len(ev)] for i in range(m["n"])], "c": word(over, m["sw"])}
                        out.append(v)
                if m["ss"]:
                    v = {"m": list(base["m"])}
                    v["m"][j] = {"n": [ev[i % len(ev)] for i in range(m["n"])], "c": word(-1, m["sw"])}
                    out.append(v)
    return out
