"""Type pool: the finite set of type-level schemas that exist as C++ types in
the executor. One Python object per type gives (a) the C++ type expression and
any declarations it needs, (b) the schema term the TLA+ specification reads
(pool/types.json). Nothing here knows the wire format."""
import json
import hashlib


def word(v, w):
    v &= (1 << (8 * w)) - 1
    return [(v >> (8 * i)) & 0xFF for i in range(w)]


class T:
    """A pool type."""

    def __init__(self, tid, cpp, schema, decls=(), kids=(), flags=None):
        self.tid = tid
        self.cpp = cpp
        self.schema = schema
        self.decls = list(decls)  # [(name, text)] in dependency order
        self.kids = list(kids)
        self.flags = dict(flags or {})

    def all_decls(self, seen=None, out=None):
        if seen is None:
            seen, out = set(), []
        for k in self.kids:
            k.all_decls(seen, out)
        for name, text in self.decls:
            if name not in seen:
                seen.add(name)
                out.append((name, text))
        return out

    def flag(self, name):
        """True if this type or any component has the flag."""
        if self.flags.get(name):
            return True
        return any(k.flag(name) for k in self.kids)


_INT_CPP = {(1, True): 'std::int8_t', (2, True): 'std::int16_t', (4, True): 'std::int32_t', (8, True): 'std::int64_t',
            (1, False): 'std::uint8_t', (2, False): 'std::uint16_t', (4, False): 'std::uint32_t',
            (8, False): 'std::uint64_t'}


def Int(w, s):
    return T(('i' if s else 'u') + str(8 * w), _INT_CPP[(w, s)], {"k": "int", "w": w, "s": s}, flags={"integral": True})


def Bool():
    return T('bool', 'bool', {"k": "bool"}, flags={"integral": True})


def Char():
    return T('char', 'char', {"k": "char"}, flags={"integral": True})


def SizeT():
    return T('size_t', 'std::size_t', {"k": "int", "w": 8, "s": False}, flags={"integral": True})


def CInt():
    return T('int', 'int', {"k": "int", "w": 4, "s": True}, flags={"integral": True})


def Enum(w, s, scoped=True):
    name = 'E%s%d%s' % ('i' if s else 'u', 8 * w, '' if scoped else 'p')
    base = _INT_CPP[(w, s)]
    text = 'enum %s%s : %s { %s_Zero = 0 };' % ('class ' if scoped else '', name, base, name)
    return T(name, 'pool::' + name, {"k": "enum", "w": w, "s": s}, decls=[(name, text)])


def EnumOver(base):
    """Enumeration whose underlying type is plain char or bool: encoded exactly as that type (not as an 8-bit integer)."""
    name = 'E' + base
    text = 'enum class %s : %s { %s_Zero = 0 };' % (name, base, name)
    return T(name, 'pool::' + name, {"k": base}, decls=[(name, text)])


def ErrEnum(w, s):
    """Enumeration usable as Result's ErrorEnum (needs a None enumerator)."""
    name = 'Err%s%d' % ('i' if s else 'u', 8 * w)
    base = _INT_CPP[(w, s)]
    text = 'enum class %s : %s { None = 0, A = 1, B = 2 };' % (name, base)
    return T(name, 'pool::' + name, {"k": "enum", "w": w, "s": s}, decls=[(name, text)])


def Flt(w):
    return T('f%d' % (8 * w), 'float' if w == 4 else 'double', {"k": "flt", "w": w}, flags={"float": True})


def Str(cw, wide_name=None):
    cpp = {1: 'std::string', 2: 'std::u16string', 4: 'std::u32string'}[cw]
    tid = 'str%d' % (8 * cw)
    if wide_name == 'w':
        cpp, tid = 'std::wstring', 'wstr'
    return T(tid, cpp, {"k": "str", "cw": cw}, flags={"dyn": True})


def Vec(e):
    return T('vec<%s>' % e.tid, 'std::vector<%s>' % e.cpp, {"k": "vec", "e": e.schema}, kids=[e], flags={"dyn": True})


def Arr(e, n):
    return T('arr<%s,%d>' % (e.tid, n), 'std::array<%s, %d>' % (e.cpp, n), {"k": "arr", "e": e.schema, "n": n},
             kids=[e])


_ca_counter = {}


def CArr(e, n):
    name = 'CA_' + hashlib.md5(('%s,%d' % (e.tid, n)).encode()).hexdigest()[:8]
    text = 'using %s = %s[%d];' % (name, e.cpp, n)
    return T('carr<%s,%d>' % (e.tid, n), 'pool::' + name, {"k": "carr", "e": e.schema, "n": n}, decls=[(name, text)],
             kids=[e], flags={"carr": True, "elem_cpp": e.cpp, "n": n})


def Pair(a, b, const_first=False):
    return T('pair<%s%s,%s>' % ('const ' if const_first else '', a.tid, b.tid),
             'std::pair<%s%s, %s>' % ('const ' if const_first else '', a.cpp, b.cpp),
             {"k": "pair", "m": [a.schema, b.schema]}, kids=[a, b])


def Tup(*m):
    return T('tup<%s>' % ','.join(x.tid for x in m), 'std::tuple<%s>' % ', '.join(x.cpp for x in m),
             {"k": "tup", "m": [x.schema for x in m]}, kids=m)


def Map(k, v):
    return T('map<%s,%s>' % (k.tid, v.tid), 'std::map<%s, %s>' % (k.cpp, v.cpp),
             {"k": "map", "key": k.schema, "val": v.schema}, kids=[k, v], flags={"dyn": True})


def UMap(k, v):
    return T('umap<%s,%s>' % (k.tid, v.tid), 'std::unordered_map<%s, %s>' % (k.cpp, v.cpp),
             {"k": "umap", "key": k.schema, "val": v.schema}, kids=[k, v], flags={"dyn": True, "umap": True})


def Ref(e):
    return T('ref<%s>' % e.tid, 'std::reference_wrapper<%s>' % e.cpp, {"k": "ref", "e": e.schema}, kids=[e],
             flags={"toplevel_only": True})


def Opt(e):
    return T('opt<%s>' % e.tid, 'nop::Optional<%s>' % e.cpp, {"k": "opt", "e": e.schema}, kids=[e])


def Res(err, e):
    return T('res<%s,%s>' % (err.tid, e.tid), 'nop::Result<%s, %s>' % (err.cpp, e.cpp),
             {"k": "res", "err": err.schema, "e": e.schema}, kids=[err, e])


def StatusOf(e):
    err = {"k": "enum", "w": 4, "s": True}
    return T('status<%s>' % e.tid, 'nop::Status<%s>' % e.cpp, {"k": "res", "err": err, "e": e.schema}, kids=[e])


def Var(*m):
    return T('var<%s>' % ','.join(x.tid for x in m), 'nop::Variant<%s>' % ', '.join(x.cpp for x in m),
             {"k": "var", "m": [x.schema for x in m]}, kids=m)


def EmptyVar():
    return T('emptyvar', 'nop::EmptyVariant', {"k": "emptyvar"})


def Hnd(kind='default'):
    """Handle types: default policy (type tag u64 0, empty -1), file handle (tag 1, empty <0), custom tag."""
    if kind == 'default':
        return T('hnd', 'nop::Handle<nop::DefaultHandlePolicy<int, -1>>',
                 {"k": "hnd", "tt": {"k": "int", "w": 8, "s": False}, "tv": word(0, 8), "ev": word(-1, 8)},
                 flags={"handle": True})
    if kind == 'file':
        return T('fhnd', 'nop::FileHandle',
                 {"k": "hnd", "tt": {"k": "int", "w": 8, "s": False}, "tv": word(1, 8), "ev": word(-1, 8)},
                 flags={"handle": True})
    if kind == 'tag16':
        text = ('struct HPTag16 { using Type = int; static constexpr int Default() { return -1; }\n'
                '  static bool IsValid(const int& v) { return v != -1; }\n'
                '  static void Close(int* v) { *v = -1; }\n'
                '  static int Release(int* v) { int t = *v; *v = -1; return t; }\n'
                '  static constexpr std::uint16_t HandleType() { return 300; } };')
        return T('hnd16', 'nop::Handle<pool::HPTag16>',
                 {"k": "hnd", "tt": {"k": "int", "w": 2, "s": False}, "tv": word(300, 2), "ev": word(-1, 8)},
                 decls=[('HPTag16', text)], flags={"handle": True})
    raise ValueError(kind)


class LBuf:
    """Logical buffer member pair: (array member, size member)."""

    def __init__(self, e, n, sw, ss, ak='c', unb=False):
        self.e, self.n, self.sw, self.ss, self.ak, self.unb = e, n, sw, ss, ak, unb
        self.schema = {"k": "lbuf", "e": e.schema, "n": n, "unb": unb, "sw": sw, "ss": ss, "ak": ak}
        self.tid = 'lbuf<%s,%d,%s%d,%s%s>' % (e.tid, n, 'i' if ss else 'u', 8 * sw, ak, ',unb' if unb else '')
        self.kids = [e]


def _member_decl(i, m):
    if isinstance(m, LBuf):
        if m.ak == 'c':
            arr = '%s d%d[%d]{};' % (m.e.cpp, i, m.n)
        else:
            arr = 'std::array<%s, %d> d%d{};' % (m.e.cpp, m.n, i)
        return '%s %s c%d{};' % (arr, _INT_CPP[(m.sw, m.ss)], i)
    if m.flags.get('carr'):
        return '%s m%d[%d]{};' % (m.flags['elem_cpp'], i, m.flags['n'])
    return '%s m%d{};' % (m.cpp, i)


def _member_ref(i, m):
    return '(d%d, c%d)' % (i, i) if isinstance(m, LBuf) else 'm%d' % i


def _abs_to(i, m):
    if isinstance(m, LBuf):
        return 'LbufTo(v.d%d, v.c%d, %d, o);' % (i, i, m.n)
    return 'Abs<std::remove_cv_t<std::remove_reference_t<decltype(v.m%d)>>>::to(v.m%d, o);' % (i, i)


def _abs_from(i, m):
    if isinstance(m, LBuf):
        return 'if (!LbufFrom(m[%d], v.d%d, v.c%d, %d)) return false;' % (i, i, i, m.n)
    return 'if (!Abs<std::remove_cv_t<std::remove_reference_t<decltype(v.m%d)>>>::from(m[%d], v.m%d)) return false;' % (i, i, i)


def Struct(name, members, style='internal', tracked=False):
    """style: internal (NOP_STRUCTURE), external (NOP_EXTERNAL_STRUCTURE), private (internal, private members)."""
    body = '\n  '.join(_member_decl(i, m) for i, m in enumerate(members))
    refs = ', '.join(_member_ref(i, m) for i, m in enumerate(members))
    unb = any(isinstance(m, LBuf) and m.unb for m in members)
    extra = ''
    if tracked:
        extra = ('\n  %s() { ::vf::g_ledger.born++; }\n  %s(const %s& o) : m0(o.m0) { ::vf::g_ledger.born++; }\n'
                 '  %s(%s&& o) : m0(o.m0) { ::vf::g_ledger.born++; }\n  ~%s() { ::vf::g_ledger.died++; }\n'
                 '  %s& operator=(const %s&) = default;\n  %s& operator=(%s&&) = default;'
                 % ((name,) * 10))
    if style == 'template':
        # a class template annotated inside (the abbreviated name is passed to the macro); the pool type is one instantiation
        macro = 'NOP_STRUCTURE(%sT%s);' % (name, (', ' + refs) if refs else '')
        text = 'template <typename X, std::size_t N>\nstruct %sT {\n  %s\n  %s\n};\nusing %s = %sT<long, 3>;' % (name, body, macro, name, name)
    elif style == 'external_template':
        # a class template annotated from outside by its base template name: every instantiation is recognised
        text = ('template <typename X>\nstruct %sT {\n  %s\n};\nNOP_EXTERNAL_STRUCTURE(%sT%s);\nusing %s = %sT<short>;'
                % (name, body, name, (', ' + refs) if refs else '', name, name))
        if unb:
            text += '\nNOP_EXTERNAL_UNBOUNDED_BUFFER(%sT);' % name
    elif style == 'external':
        text = 'struct %s {\n  %s\n};\nNOP_EXTERNAL_STRUCTURE(%s%s);' % (name, body, name, (', ' + refs) if refs else '')
        if unb:
            text += '\nNOP_EXTERNAL_UNBOUNDED_BUFFER(%s);' % name
    else:
        macro = 'NOP_STRUCTURE(%s%s);' % (name, (', ' + refs) if refs else '')
        if unb:
            macro += '\n  NOP_UNBOUNDED_BUFFER(%s);' % name
        if style == 'private':
            text = ('class %s {\n public:%s\n private:\n  %s\n  %s\n  friend struct ::vf::Abs<%s, void>;\n};'
                    % (name, extra, body, macro, name))
        else:
            text = 'struct %s {%s\n  %s\n  %s\n};' % (name, extra, body, macro)
    to_body = '\n    '.join(_abs_to(i, m) for i, m in enumerate(members))
    from_body = '\n    '.join(_abs_from(i, m) for i, m in enumerate(members))
    abs_text = ('template <> struct Abs<pool::%s, void> {\n'
                '  static void to(const pool::%s& v, JsonOut& o) {\n    (void)v; o.begin_obj(); o.key("m"); o.begin_arr();\n    %s\n'
                '    o.end_arr(); o.end_obj();\n  }\n'
                '  static bool from(const Json& j, pool::%s& v) {\n    (void)v; const Json& m = j.at("m");\n'
                '    if (!m.is_arr() || m.size() != %d) return false;\n    %s\n    return true;\n  }\n};'
                % (name, name, to_body, name, len(members), from_body))
    kids = []
    for m in members:
        kids.extend(m.kids if isinstance(m, LBuf) else [m])
    flags = {}
    if unb:
        flags['unbounded'] = True
    if any(isinstance(m, LBuf) for m in members):
        flags['lbuf'] = True
    if tracked:
        flags['tracked'] = True
    return T(name, 'pool::' + name, {"k": "struct", "m": [m.schema for m in members]},
             decls=[(name, text), ('Abs_' + name, '@abs ' + abs_text)], kids=kids, flags=flags)


def Wrap(name, member):
    """Value wrapper (NOP_VALUE) around a member or logical buffer pair."""
    body = _member_decl(0, member)
    text = 'struct %s {\n  %s\n  NOP_VALUE(%s, %s);\n};' % (name, body, name, _member_ref(0, member))
    if isinstance(member, LBuf):
        to_body = 'LbufTo(v.d0, v.c0, %d, o);' % member.n
        from_body = 'return LbufFrom(j, v.d0, v.c0, %d);' % member.n
    else:
        to_body = 'Abs<std::remove_cv_t<std::remove_reference_t<decltype(v.m0)>>>::to(v.m0, o);'
        from_body = 'return Abs<std::remove_cv_t<std::remove_reference_t<decltype(v.m0)>>>::from(j, v.m0);'
    abs_text = ('template <> struct Abs<pool::%s, void> {\n'
                '  static void to(const pool::%s& v, JsonOut& o) { %s }\n'
                '  static bool from(const Json& j, pool::%s& v) { %s }\n};' % (name, name, to_body, name, from_body))
    kids = member.kids if isinstance(member, LBuf) else [member]
    return T(name, 'pool::' + name, {"k": "wrap", "e": member.schema},
             decls=[(name, text), ('Abs_' + name, '@abs ' + abs_text)], kids=kids,
             flags={'lbuf': True} if isinstance(member, LBuf) else {})


def Table(name, label, entries):
    """label: int hash, or ("ns", "string") for NOP_TABLE_NS, or None for NOP_TABLE.
    entries: [(id, active, T)]. The hash of an NS table is not known to Python: the schema then
    carries the name and the specification computes it (SipHash.tla)."""
    lines = []
    for i, (eid, act, t) in enumerate(entries):
        lines.append('nop::Entry<%s, %dULL%s> e%d;' % (t.cpp, eid, '' if act else ', nop::DeletedEntry', i))
    refs = ', '.join('e%d' % i for i in range(len(entries)))
    if label is None:
        macro = 'NOP_TABLE(%s%s);' % (name, (', ' + refs) if refs else '')
        hsch = {"hash": word(0, 8)}
    elif isinstance(label, tuple):
        macro = 'NOP_TABLE_NS("%s", %s%s);' % (label[1], name, (', ' + refs) if refs else '')
        hsch = {"ns": [b for b in label[1].encode('utf-8')]}
    else:
        macro = 'NOP_TABLE_HASH(%dULL, %s%s);' % (label, name, (', ' + refs) if refs else '')
        hsch = {"hash": word(label, 8)}
    text = 'struct %s {\n  %s\n  %s\n};' % (name, '\n  '.join(lines), macro)
    to_body = '\n    '.join('EntryTo(v.e%d, o);' % i for i in range(len(entries)))
    from_body = '\n    '.join('if (!EntryFrom(t[%d], v.e%d)) return false;' % (i, i) for i in range(len(entries)))
    abs_text = ('template <> struct Abs<pool::%s, void> {\n'
                '  static void to(const pool::%s& v, JsonOut& o) {\n    (void)v; o.begin_obj(); o.key("t"); o.begin_arr();\n    %s\n'
                '    o.end_arr(); o.end_obj();\n  }\n'
                '  static bool from(const Json& j, pool::%s& v) {\n    (void)v; const Json& t = j.at("t");\n'
                '    if (!t.is_arr() || t.size() != %d) return false;\n    %s\n    return true;\n  }\n};'
                % (name, name, to_body, name, len(entries), from_body))
    sch = {"k": "table", "ents": [{"id": word(eid, 8), "act": act, "e": t.schema} for eid, act, t in entries]}
    sch.update(hsch)
    return T(name, 'pool::' + name, sch, decls=[(name, text), ('Abs_' + name, '@abs ' + abs_text)],
             kids=[t for _, _, t in entries], flags={"table": True})


def Tracked():
    return Struct('Tracked', [Int(4, True)], tracked=True)


def from_schema(S, names=None):
    """Builds the pool type for a schema term emitted by TLC (version pool of Tables.tla)."""
    k = S["k"]
    if k == "int":
        return Int(S["w"], S["s"])
    if k == "bool":
        return Bool()
    if k == "char":
        return Char()
    if k == "str":
        return Str(S["cw"])
    if k == "vec":
        return Vec(from_schema(S["e"]))
    if k == "arr":
        return Arr(from_schema(S["e"]), S["n"])
    if k == "table":
        ents = [(int.from_bytes(bytes(e["id"]), 'little'), bool(e["act"]), from_schema(e["e"])) for e in S["ents"]]
        name = 'TV_' + hashlib.md5(json.dumps(S, sort_keys=True).encode()).hexdigest()[:10]
        t = Table(name, int.from_bytes(bytes(S["hash"]), 'little'), ents)
        t.flags["vpool"] = True
        return t
    raise ValueError('from_schema: ' + k)


# ---------------------------------------------------------------------------
# C++ generation


def gen_cpp(types, nshards):
    """Returns {filename: text}. Every shard is self-contained: it carries only the declarations its types need."""
    prolog = ['// GENERATED by lib/pool.py - do not edit',
              '#include <array>', '#include <cstdint>', '#include <map>', '#include <string>', '#include <tuple>',
              '#include <unordered_map>', '#include <vector>', '#include <functional>',
              '#include <nop/serializer.h>', '#include <nop/structure.h>', '#include <nop/table.h>', '#include <nop/value.h>',
              '#include <nop/types/variant.h>', '#include <nop/types/optional.h>', '#include <nop/types/result.h>',
              '#include <nop/types/handle.h>', '#include <nop/types/file_handle.h>', '#include <nop/status.h>',
              '#include "ops.h"', '']
    files = {}
    shards = [[] for _ in range(nshards)]
    cost = [0] * nshards
    for t in sorted(types, key=lambda t: -len(json.dumps(t.schema))):
        i = cost.index(min(cost))
        shards[i].append(t)
        cost[i] += 10 + len(json.dumps(t.schema))
    for i, sh in enumerate(shards):
        seen, decls = set(), []
        for t in sh:
            t.all_decls(seen, decls)
        lines = list(prolog)
        # each shard lives in its own inline namespace-free world: declarations are repeated per shard, so keep
        # them in an anonymous namespace to avoid ODR clashes between shards
        for name, text in decls:
            if text.startswith('@abs '):
                lines.append('namespace vf {\n' + text[5:] + '\n}  // namespace vf')
            else:
                lines.append('namespace pool {\n' + text + '\n}  // namespace pool')
        lines.append('')
        for t in sh:
            lines.append('VF_REGISTER(%s, %s);' % (json.dumps(t.tid), t.cpp))
        files['pool_%02d.cpp' % i] = '\n'.join(lines) + '\n'
    return files


def types_json(types):
    return {t.tid: t.schema for t in types}
