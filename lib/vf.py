"""Core of the check driver: executor runs, TLC runs (model checking and trace
validation), known findings, evidence."""
import glob
import hashlib
import json
import os
import re
import shutil
import subprocess
import sys
import time
from concurrent.futures import ThreadPoolExecutor

sys.path.insert(0, os.path.dirname(os.path.abspath(__file__)))
import build as buildmod  # noqa: E402

VERIF = buildmod.VERIF
SPEC = os.path.join(VERIF, 'spec')
CACHE = buildmod.CACHE
TLA_CP = '/opt/veriftools/tla/tla2tools.jar:/opt/veriftools/tla/CommunityModules-deps.jar'


class MachineryError(Exception):
    """The checking machinery itself failed (exit 2): never reported as a violation."""


class Run:
    """One invocation of a check."""

    def __init__(self, prop, tier, seed):
        self.prop, self.tier, self.seed = prop, tier, seed
        self.t0 = time.time()
        self.work = os.path.join(CACHE, 'work', '%s-%d' % (prop, os.getpid()))
        shutil.rmtree(self.work, ignore_errors=True)
        os.makedirs(self.work)
        self.states = 0
        self.transitions = 0
        self.mc_states = 0
        self.mc_transitions = 0
        self.traces = 0
        self.events = 0
        self.commands = 0
        self.samples = []
        self.rejections = []   # dicts: {key, what, replay, event}
        self.notes = []
        self.distinct = set()
        self.phases = []
        self.coverage_extra = {}
        self.assumptions = []
        self.exhaustive = False

    def cleanup(self):
        shutil.rmtree(self.work, ignore_errors=True)

    def note(self, s):
        self.notes.append(s)
        print('[%s %6.1fs] %s' % (self.prop, time.time() - self.t0, s), flush=True)


# --------------------------------------------------------------------------
# Executor


def get_exe(run, flavour='plain'):
    if os.environ.get('VERIF_COV'):
        flavour = 'cov'      # bin/coverage: measure which library lines the stimuli reach
    try:
        exe, bdir, secs, cached = buildmod.build(flavour)
    except buildmod.BuildError as e:
        raise MachineryError('executor build failed (flavour %s); a /repo change that no longer compiles is not a '
                             'property violation:\n%s' % (flavour, str(e)[:4000]))
    run.note('executor %s: %s (%.1fs)' % (flavour, 'cached' if cached else 'built', secs))
    return exe, os.path.join(bdir, 'types.json')


def write_ndjson(path, objs):
    with open(path, 'w') as f:
        for o in objs:
            f.write(json.dumps(o, separators=(',', ':')))
            f.write('\n')


def exec_commands(run, exe, cmds, name, per_cmd_timeout=30, env=None):
    """Runs the executor over cmds, restarting after abnormal terminations. Returns trace path."""
    cpath = os.path.join(run.work, name + '.cmds.ndjson')
    tpath = os.path.join(run.work, name + '.trace.ndjson')
    write_ndjson(cpath, cmds)
    skip = 0
    total = len(cmds)
    restarts = 0
    ntimeouts = 0
    e = dict(os.environ)
    if env:
        e.update(env)
    while True:
        args = [exe, '--in', cpath, '--out', tpath, '--work', run.work, '--timeout', str(per_cmd_timeout)]
        if skip:
            args += ['--skip', str(skip)]
        try:
            r = subprocess.run(args, capture_output=True, text=True, timeout=min(7200, max(120, total * 2)), env=e)
        except subprocess.TimeoutExpired:
            raise MachineryError('executor did not finish: ' + name)
        if r.returncode == 0:
            break
        # abnormal termination: the handler wrote an event carrying the command index
        last_idx = None
        with open(tpath, 'rb') as f:
            data = f.read()
        lines = data.split(b'\n')
        # drop a trailing partial line (crash in the middle of fwrite)
        good = []
        for ln in lines:
            if not ln:
                continue
            try:
                ev = json.loads(ln)
                good.append(ln)
                last_idx = ev.get('idx', last_idx)
            except Exception:
                pass
        abnormal = good and json.loads(good[-1]).get('e') in ('UB', 'Crash', 'Exc', 'Timeout') and 'ThreadSanitizer' not in r.stderr
        if not abnormal:
            nxt = (last_idx + 1) if last_idx is not None else skip
            if 'ThreadSanitizer' in r.stderr:
                m = re.search(r'WARNING: ThreadSanitizer: ([^\n(]*)', r.stderr)
                good.append(json.dumps({"e": "Race", "idx": nxt, "what": (m.group(1).strip() if m else "tsan report")}).encode())
            else:
                good.append(json.dumps({"e": "Crash", "idx": nxt, "what": "exit %d %s" % (r.returncode, r.stderr[-300:])}).encode())
            last_idx = nxt
        with open(tpath, 'wb') as f:
            f.write(b'\n'.join(good) + b'\n')
        skip = last_idx + 1
        restarts += 1
        if good and json.loads(good[-1]).get('e') == 'Timeout':
            ntimeouts += 1
        if skip >= total or restarts > 200:
            break
        if ntimeouts >= 6:
            # a change that breaks progress: the Timeout events already decide the run (they are violations);
            # running the remaining commands at 30 s apiece would only delay the verdict
            run.note('executor %s: %d commands timed out; remaining %d commands not run' % (name, ntimeouts, total - skip))
            break
    run.commands += total
    return tpath


# --------------------------------------------------------------------------
# TLC

_GEN_RE = re.compile(r'(\d+) states generated, (\d+) distinct states found')


def _tlc_cmd(module, cfg, metadir, workers=1, extra=(), xss='256m', xmx=None):
    cmd = ['java', '-Xss' + xss, '-XX:+UseParallelGC']
    if xmx:
        cmd.append('-Xmx' + xmx)
    cmd += ['-cp', TLA_CP, 'tlc2.TLC', '-workers', str(workers), '-metadir', metadir, '-config', cfg, '-noGenerateSpecTE']
    cmd += list(extra)
    cmd.append(module)
    return cmd


def tlc_model_check(run, module, cfg, workers=8, timeout=600, extra=(), env=None, label=None, xmx='8g'):
    """Model-checks spec/<module>.tla with spec/<cfg>. Returns dict(states, distinct, out). A violated
    invariant/property of the *specification itself* is a machinery error (the oracle is incoherent)."""
    metadir = os.path.join(run.work, 'meta-%s-%d' % (label or module, len(run.phases)))
    cmd = _tlc_cmd(module + '.tla', cfg, metadir, workers, extra, xmx=xmx)
    e = dict(os.environ)
    if env:
        e.update(env)
    t0 = time.time()
    try:
        r = subprocess.run(cmd, cwd=SPEC, capture_output=True, text=True, timeout=timeout, env=e)
    except subprocess.TimeoutExpired:
        raise MachineryError('TLC timed out on %s/%s' % (module, cfg))
    shutil.rmtree(metadir, ignore_errors=True)
    out = r.stdout
    m = None
    for m in _GEN_RE.finditer(out):
        pass
    if r.returncode != 0 or m is None:
        raise MachineryError('TLC failed on %s/%s (rc=%d):\n%s' % (module, cfg, r.returncode, out[-3000:]))
    gen, dist = int(m.group(1)), int(m.group(2))
    run.mc_states += dist
    run.mc_transitions += gen
    run.phases.append({"phase": "model-check", "module": module, "cfg": cfg, "states_generated": gen,
                       "distinct_states": dist, "wall_s": round(time.time() - t0, 1)})
    run.note('TLC %s/%s: %d generated, %d distinct (%.1fs)' % (module, cfg, gen, dist, time.time() - t0))
    return {"generated": gen, "distinct": dist, "out": out}


def apalache_inductive(run, module, cinit, init, indinit, indinv, safety, timeout=600):
    """Apalache (symbolic): Init => IndInv, IndInv /\\ Next => IndInv', IndInv => Safety for spec/<module>.tla.
    A counterexample means the specification is incoherent (machinery error), as for TLC."""
    steps = [("initiation", init, indinv, 0), ("consecution", indinit, indinv, 1), ("sufficiency", indinit, safety, 0)]
    t0 = time.time()
    for name, ini, inv, length in steps:
        outdir = os.path.join(run.work, 'apa-%s-%s' % (module, name))
        cmd = ['apalache-mc', 'check', '--cinit=' + cinit, '--init=' + ini, '--inv=' + inv, '--length=%d' % length,
               '--out-dir=' + outdir, '--run-dir=' + outdir, os.path.join(SPEC, module + '.tla')]
        try:
            r = subprocess.run(cmd, cwd=run.work, capture_output=True, text=True, timeout=timeout)
        except subprocess.TimeoutExpired:
            raise MachineryError('Apalache timed out on %s (%s)' % (module, name))
        shutil.rmtree(outdir, ignore_errors=True)
        if r.returncode != 0 or 'The outcome is: NoError' not in r.stdout:
            raise MachineryError('Apalache %s of %s failed (rc=%d):\n%s' % (name, module, r.returncode, r.stdout[-2000:]))
    run.phases.append({"phase": "inductive-proof", "tool": "apalache", "module": module, "invariant": indinv, "implies": safety,
                       "constants": cinit, "wall_s": round(time.time() - t0, 1)})
    run.note('Apalache %s: %s inductive under %s and implies %s (%.1fs)' % (module, indinv, cinit, safety, time.time() - t0))


def tlc_generate(run, module, consts, invariant='Emit', timeout=600, label='gen', extra_cfg='', workers=1):
    """Runs TLC on a behaviour-generation spec; returns the JSON values it printed (one per behaviour)."""
    cfg = os.path.join(run.work, '%s-%s-%d.cfg' % (module, label, len(run.phases)))
    with open(cfg, 'w') as f:
        f.write('SPECIFICATION Spec\nCONSTANTS\n')
        for k, v in consts.items():
            f.write('  %s = %s\n' % (k, ('TRUE' if v else 'FALSE') if isinstance(v, bool) else json.dumps(v) if isinstance(v, str) else v))
        f.write('INVARIANT %s\nCHECK_DEADLOCK FALSE\n%s\n' % (invariant, extra_cfg))
    metadir = os.path.join(run.work, 'gmeta-%d' % len(run.phases))
    cmd = _tlc_cmd(module + '.tla', cfg, metadir, workers, xss='64m', xmx='6g')
    t0 = time.time()
    try:
        r = subprocess.run(cmd, cwd=SPEC, capture_output=True, text=True, timeout=timeout)
    except subprocess.TimeoutExpired:
        raise MachineryError('TLC timed out generating behaviours from ' + module)
    shutil.rmtree(metadir, ignore_errors=True)
    m = None
    for m in _GEN_RE.finditer(r.stdout):
        pass
    if r.returncode != 0 or m is None:
        raise MachineryError('TLC failed generating behaviours from %s:\n%s' % (module, r.stdout[-2000:]))
    out = []
    for ln in r.stdout.split('\n'):
        if ln.startswith('"') and ln.endswith('"'):
            try:
                out.append(json.loads(json.loads(ln)))
            except Exception:
                pass
    run.mc_states += int(m.group(2))
    run.mc_transitions += int(m.group(1))
    run.phases.append({"phase": "behaviour-generation", "module": module, "consts": consts, "behaviours": len(out),
                       "states_generated": int(m.group(1)), "distinct_states": int(m.group(2)),
                       "wall_s": round(time.time() - t0, 1)})
    run.note('TLC generated %d behaviours from %s %s (%.1fs)' % (len(out), module, consts, time.time() - t0))
    return out


def _parse_trace_output(out):
    """Returns (done record or None, [reject records]) from the PrintT lines of a trace specification."""
    done, rej = None, []
    for ln in out.split('\n'):
        if ln.startswith('"REJECT ') or ln.startswith('"DONE '):
            try:
                text = json.loads(ln)
            except Exception:
                continue
            kind, _, payload = text.partition(' ')
            rec = json.loads(payload)
            if kind == 'DONE':
                done = rec
            else:
                rej.append(rec)
    return done, rej



def _validate_chunk(args):
    run, module, cfg, chunk_path, env, idx, nlines, timeout = args
    metadir = os.path.join(run.work, 'tmeta-%d' % idx)
    cmd = _tlc_cmd(module + '.tla', cfg, metadir, 1, xss='512m', xmx='3g')
    e = dict(os.environ)
    e.update(env)
    e['TRACE'] = chunk_path
    for attempt in (1, 2):
        try:
            r = subprocess.run(cmd, cwd=SPEC, capture_output=True, text=True, timeout=timeout, env=e)
        except subprocess.TimeoutExpired:
            shutil.rmtree(metadir, ignore_errors=True)
            if attempt == 2:
                return {"error": 'TLC trace validation timed out on chunk %d' % idx}
            continue
        shutil.rmtree(metadir, ignore_errors=True)
        out = r.stdout
        done, rejs = _parse_trace_output(out)
        if done and int(done["n"]) == nlines and int(done["nrej"]) == len(rejs):
            rej = [(int(x["l"]), int(x["idx"]), x["e"], x.get("why") or []) for x in rejs]
            gm = None
            for gm in _GEN_RE.finditer(out):
                pass
            return {"rej": rej, "gen": int(gm.group(1)) if gm else nlines, "dist": int(gm.group(2)) if gm else nlines,
                    "out": out}
        if attempt == 2:
            return {"error": 'TLC did not consume chunk %d (rc=%d):\n%s' % (idx, r.returncode, out[-2500:])}
    return {"error": "unreachable"}


def split_trace(trace_path, nchunks, group_key='Reset'):
    """Splits an ndjson trace into at most nchunks files at Reset boundaries. Returns [(path, nlines, [events])]."""
    with open(trace_path) as f:
        lines = [ln for ln in f.read().split('\n') if ln]
    groups, cur = [], []
    for ln in lines:
        if ln.find('"e":"%s"' % group_key) >= 0 and cur:
            groups.append(cur)
            cur = []
        cur.append(ln)
    if cur:
        groups.append(cur)
    # balance by bytes (TLC time is dominated by the size of the values), longest groups first
    sizes = [sum(len(x) for x in g) + 200 * len(g) for g in groups]
    order = sorted(range(len(groups)), key=lambda i: -sizes[i])
    nb = max(1, min(nchunks, len(groups)))
    bins = [[] for _ in range(nb)]
    load = [0] * nb
    for gi in order:
        b = load.index(min(load))
        bins[b].append(gi)
        load[b] += sizes[gi]
    chunks = []
    for b in bins:
        if b:
            c = []
            for gi in sorted(b):
                c.extend(groups[gi])
            chunks.append(c)
    out = []
    for i, c in enumerate(chunks):
        p = '%s.chunk%02d' % (trace_path, i)
        with open(p, 'w') as f:
            f.write('\n'.join(c) + '\n')
        out.append((p, len(c), c))
    return out


def tlc_validate(run, module, cfg, trace_path, env, nchunks=16, timeout=900):
    """Validates a recorded trace against spec/<module>.tla. Returns list of rejected events (parsed JSON)."""
    t0 = time.time()
    chunks = split_trace(trace_path, nchunks)
    jobs = [(run, module, cfg, p, env, i, n, timeout) for i, (p, n, _) in enumerate(chunks)]
    rejected = []
    with ThreadPoolExecutor(max_workers=16) as ex:
        results = list(ex.map(_validate_chunk, jobs))
    nev = 0
    for (p, n, lines), res in zip(chunks, results):
        if 'error' in res:
            raise MachineryError(res['error'])
        run.states += res['dist']
        run.transitions += res['gen']
        nev += n
        for (l, idx, kind, why) in res['rej']:
            ev = json.loads(lines[l - 1])
            tags = sorted(set(why if isinstance(why, list) else [str(why)]))
            rejected.append({"event": ev, "why": tags, "l": l})
        os.unlink(p)
    run.traces += len(chunks)
    run.events += nev
    run.phases.append({"phase": "trace-validation", "module": module, "events": nev, "chunks": len(chunks),
                       "rejected": len(rejected), "wall_s": round(time.time() - t0, 1)})
    run.note('TLC validated %d events in %d chunks against %s: %d rejected (%.1fs)' %
             (nev, len(chunks), module, len(rejected), time.time() - t0))
    return rejected


# --------------------------------------------------------------------------
# Known findings, verdict, evidence


def load_known():
    """known_findings.txt: 'known: property=<id> key=<key> :: <what>' and 'fixed: property=<id> <commit> <what>'."""
    path = os.path.join(VERIF, 'known_findings.txt')
    out = []
    if os.path.exists(path):
        with open(path) as f:
            for ln in f:
                ln = ln.strip()
                m = re.match(r'known: property=(\S+) key=(\S+) :: (.*)$', ln)
                if m:
                    out.append({"status": "known", "property": m.group(1), "key": m.group(2), "what": m.group(3)})
                m = re.match(r'fixed: property=(\S+) (\S+) (.*)$', ln)
                if m:
                    out.append({"status": "fixed", "property": m.group(1), "commit": m.group(2), "what": m.group(3)})
    return out


def finish(run, level='model_checking', rule='', extra_cov=None):
    """Prints the verdict lines, writes the evidence file, returns the exit status."""
    known = [k for k in load_known() if k.get('status') == 'known' and k.get('property') == run.prop]
    kmap = {k['key']: k for k in known}
    violations = []
    reported_known = {}
    for rj in run.rejections:
        if rj['key'] in kmap:
            reported_known.setdefault(rj['key'], []).append(rj)
        else:
            violations.append(rj)
    for key, rjs in reported_known.items():
        print('KNOWN-FINDING: property=%s %s [%s; %d occurrence(s) in this run]' %
              (run.prop, kmap[key]['what'], key, len(rjs)))
    replay_dir = os.path.join(VERIF, 'evidence', 'replay')
    for old in glob.glob(os.path.join(replay_dir, run.prop + '-*.json')):
        os.unlink(old)
    seen_keys = set()
    nviol = 0
    for rj in violations:
        if rj['key'] in seen_keys:
            continue
        seen_keys.add(rj['key'])
        nviol += 1
        if nviol > 20:
            break
        os.makedirs(replay_dir, exist_ok=True)
        rp = os.path.join(replay_dir, '%s-%d.json' % (run.prop, nviol))
        with open(rp, 'w') as f:
            json.dump({"property": run.prop, "key": rj['key'], "what": rj.get('what'), "commands": rj.get('replay'),
                       "event": rj.get('event')}, f)
        print('VIOLATION property=%s replay=%s' % (run.prop, rp))
        print('  key=%s %s' % (rj['key'], (rj.get('what') or '')[:300]))
    cov = {
        "states": max(1, run.states + run.mc_states),
        "transitions": max(1, run.transitions + run.mc_transitions),
        "traces_validated_against_impl": run.traces,
        "samples": run.samples[:8] if run.samples else [{"note": "no sample recorded"}],
        "model_states": run.mc_states, "model_transitions": run.mc_transitions,
        "trace_states": run.states, "trace_transitions": run.transitions,
        "events_validated": run.events, "commands_executed": run.commands,
        "evaluations": max(1, run.events),
        "distinct_nontrivial": max(2, len(run.distinct)),
        "rule": rule,
        "exhaustive": run.exhaustive,
        "phases": run.phases,
        "known_findings_reported": sorted(reported_known.keys()),
    }
    cov.update(run.coverage_extra)
    if extra_cov:
        cov.update(extra_cov)
    ev = {"property_id": run.prop, "tier": run.tier, "seed": run.seed, "level": level, "coverage": cov,
          "assumptions": run.assumptions, "wall_s": round(time.time() - run.t0, 1), "violations": len(seen_keys)}
    os.makedirs(os.path.join(VERIF, 'evidence'), exist_ok=True)
    with open(os.path.join(VERIF, 'evidence', run.prop + '.json'), 'w') as f:
        json.dump(ev, f, indent=1)
    run.note('done: %d events validated, %d rejected keys (%d known), %.1fs' %
             (run.events, len(seen_keys) + len(reported_known), len(reported_known), time.time() - run.t0))
    return 1 if seen_keys else 0


def shape(schema):
    """Coarse type-shape used in structural keys and distinctness counting."""
    k = schema["k"]
    if k in ("int", "enum"):
        return '%s%s%d' % (k, 'i' if schema["s"] else 'u', 8 * schema["w"])
    if k in ("vec", "arr", "carr", "lbuf", "opt", "ref", "wrap"):
        return '%s(%s)' % (k, shape(schema["e"]))
    if k in ("pair", "tup", "struct", "var"):
        return '%s(%s)' % (k, ','.join(shape(m) for m in schema["m"]))
    if k in ("map", "umap"):
        return '%s(%s,%s)' % (k, shape(schema["key"]), shape(schema["val"]))
    if k == "res":
        return 'res(%s)' % shape(schema["e"])
    if k == "table":
        return 'table(%d)' % len(schema["ents"])
    if k == "flt":
        return 'f%d' % (8 * schema["w"])
    if k == "str":
        return 'str%d' % (8 * schema["cw"])
    return k


def digest(obj):
    return hashlib.sha1(json.dumps(obj, sort_keys=True).encode()).hexdigest()[:12]
