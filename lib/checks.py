"""Per-property checks. Each check: (M) TLC model-checks the specification on its
own, (B) stimuli -> executor (real libnop) -> trace -> TLC trace validation."""
import json
import os
import random

import vf
import vals
from pool import word

KINDS_W = ["pedantic", "buffer", "constexpr", "sstream", "fd", "fdintr"]
KINDS_R = ["pedantic", "buffer", "sstream", "fstream", "fd", "fdburst", "fdintr"]
BIGCAP = 1 << 20


def load_types(types_path):
    with open(types_path) as f:
        return json.load(f)


def walk(S):
    yield S
    k = S["k"]
    if k in ("vec", "arr", "carr", "lbuf", "ref", "wrap", "opt"):
        yield from walk(S["e"])
    elif k in ("pair", "tup", "struct", "var"):
        for m in S["m"]:
            yield from walk(m)
    elif k in ("map", "umap"):
        yield from walk(S["key"])
        yield from walk(S["val"])
    elif k == "res":
        yield from walk(S["e"])
    elif k == "table":
        for e in S["ents"]:
            yield from walk(e["e"])


def has_kind(S, kinds):
    return any(x["k"] in kinds for x in walk(S))


def is_unbounded(S):
    return any(x["k"] == "lbuf" and x.get("unb") for x in walk(S))


def needs_skip(S):
    return has_kind(S, ("table",))


def env_for(prop, types_path):
    return {"PROP": prop, "TYPES": types_path}


def add_rejections(run, rejected, keyfn, cmds_by_idx=None):
    for rj in rejected:
        ev = rj["event"]
        replay = None
        if cmds_by_idx is not None and ev.get("idx") in cmds_by_idx:
            replay = cmds_by_idx[ev["idx"]]
        key, what = keyfn(ev, rj.get("why") or [], replay)
        run.rejections.append({"key": key, "what": what, "event": _shorten(ev), "replay": replay})


def _shorten(ev, limit=4000):
    s = json.dumps(ev)
    if len(s) <= limit:
        return ev
    return {"truncated": s[:limit]}


def abnormal_key(prop, ev, why=None, cmd=None):
    what = ev.get("what", "")
    cls = what
    if ev.get("e") == "Exc" and any(x in what for x in ("basic_string::", "vector::", "bad_alloc", "length_error", "bad_array_new_length")):
        cls = "alloc-exception"
    ctx = ''
    if cmd is not None:
        kind = cmd.get("rk") or cmd.get("wk")
        if isinstance(kind, dict):
            kind = 'bounded:' + str(kind.get("bounded"))
        tids = [it.get("tid") for it in cmd.get("items", [])] or [cmd.get("tid")]
        # allocation exceptions are characterised by the reader kind, everything else by the type
        ctx = '|%s|%s' % (cmd.get("c"), kind if cls == "alloc-exception" else tids[0])
    return '%s|%s|%s%s' % (prop, ev.get("e"), cls, ctx), 'executor event %s (%s) at command %s' % (
        ev.get("e"), what, ev.get("idx"))


def with_resets(cmds, every=8):
    out = []
    for i, c in enumerate(cmds):
        if i % every == 0:
            out.append({"c": "reset"})
        out.append(c)
    return out


def with_group_resets(groups, per_chunk=20):
    """groups: list of command lists that must stay in one chunk."""
    out = []
    for i, g in enumerate(groups):
        if i % per_chunk == 0:
            out.append({"c": "reset"})
        out.extend(g)
    return out


def index_cmds(cmds):
    return {i: c for i, c in enumerate(cmds)}


REF_SETS = [[-1 & ((1 << 64) - 1), 0, 1], [63, 64, 127, 128], [255, 256, 65535, 65536], [(1 << 31) - 1, 1 << 31, (1 << 32)],
            [(1 << 63) - 1, (-65) & ((1 << 64) - 1), (-129) & ((1 << 64) - 1), (-(1 << 31) - 1) & ((1 << 64) - 1)]]


def refs_for(i):
    return [word(r, 8) for r in REF_SETS[i % len(REF_SETS)]] * 3


# ===========================================================================
# C03


def stimuli_values(run, types, big, nrandom, include_overfull=False):
    """Yields (tid, S, v) for every pool type."""
    gen = vals.Gen(seed=run.seed, big=big, nrandom=nrandom)
    for tid, S in types.items():
        for v in gen.values(S):
            yield tid, S, v
        if include_overfull:
            for v in vals.overfull_lbuf_values(S, gen):
                yield tid, S, v


def int_exhaustive_cmds(types, widths, wk="pedantic"):
    """All values of the 8/16-bit integer types, 256 items per W command."""
    cmds = []
    for tid, S in types.items():
        if S["k"] in ("int", "char", "bool") and S.get("w", 1) in widths:
            w = S.get("w", 1)
            rng = range(256) if w == 1 else range(65536)
            if S["k"] == "bool":
                rng = range(2)
            items = []
            for x in rng:
                items.append({"tid": tid, "v": word(x, w)})
                if len(items) == 256:
                    cmds.append({"c": "w", "wk": wk, "cap": 4096, "items": items, "nolog": 1})
                    items = []
            if items:
                cmds.append({"c": "w", "wk": wk, "cap": 4096, "items": items, "nolog": 1})
    return cmds


def key_codec(prop):
    """Structural key of a rejected codec event: property | event kind | type | violated conditions."""
    def fn(ev, why, cmd=None):
        if ev.get("e") in ("UB", "Crash", "Exc", "Timeout", "BadCmd"):
            return abnormal_key(prop, ev, why, cmd)
        if any(t.startswith("doc-mismatch:") for t in why):
            return '%s|%s|%s' % (prop, ev.get("e"), ','.join(why)), 'event %s: %s (command %s)' % (ev.get("e"), ', '.join(why), ev.get("idx"))
        tids = [it.get("tid") for it in ev.get("items", [])] or [ev.get("tid")]
        k = '%s|%s|%s|%s' % (prop, ev.get("e"), tids[0], ','.join(why))
        kind = ev.get("wk") or ev.get("rk") or {}
        return k, 'event %s on %s (%s%s) violates: %s (command %s)' % (
            ev.get("e"), tids[0], kind.get("k", ""), "/bounded" if kind.get("b") else "", ', '.join(why), ev.get("idx"))
    return fn


def check_C03(run):
    exe, types_path = vf.get_exe(run, 'plain')
    types = load_types(types_path)
    thorough = run.tier == 'thorough'
    cmds = []
    i = 0
    for tid, S, v in stimuli_values(run, types, big=True, nrandom=30 if thorough else 2):
        big_value = len(json.dumps(v)) > 20000
        # rotating writer kinds; in the thorough tier every writer kind the type can use (tables need Skip, which an
        # FdWriter does not have; floating point is not constexpr-serialisable)
        wks = [KINDS_W[i % 4]] if (not thorough or big_value) else [k for k in KINDS_W if not (k.startswith("fd") and needs_skip(S))]
        for wk in wks:
            if has_kind(S, ("flt",)) and wk == "constexpr":
                wk = "pedantic"
            items = [{"tid": tid, "v": v}] * (1 if big_value else 2)
            c = {"c": "w", "wk": wk, "cap": BIGCAP, "items": items, "nolog": 1}
            if has_kind(S, ("hnd",)):
                c["refs"] = refs_for(i)
            cmds.append(c)
        run.distinct.add((tid, vf.digest(v)))
        i += 1
    cmds += int_exhaustive_cmds(types, (1, 2) if thorough else (1,))
    cmds = with_resets(cmds) + [{"c": "forms", "n": 96}]
    run.samples = [c for c in cmds if c.get("c") == "w"][:3]
    run_codec(run, 'C03', cmds, mc=MC_WIRE)      # W3 (smallest class), W4 (size estimate) on the specification
    return vf.finish(run, rule='every pool type x boundary/random values (written twice) through rotating writer kinds; '
                               'distinct = distinct (type, value)')


def check_C01(run):
    exe, types_path = vf.get_exe(run, 'plain')
    types = load_types(types_path)
    thorough = run.tier == 'thorough'
    rng = random.Random(run.seed)
    groups = []
    pairings = [(w, r) for w in KINDS_W + ["b:pedantic", "b:buffer", "b:sstream"] for r in KINDS_R + ["b:pedantic", "b:buffer", "b:sstream", "b:fstream"]]
    n = 0
    per_type = {}
    for tid, S, v in stimuli_values(run, types, big=True, nrandom=6 if thorough else 1):
        per_type.setdefault(tid, []).append(v)
    # values that are not encodable (size member above capacity): the writer must refuse them
    gen = vals.Gen(seed=run.seed)
    for tid, S in types.items():
        for v in vals.overfull_lbuf_values(S, gen):
            for wk in ("pedantic", "buffer", "sstream"):
                groups.append([{"c": "w", "wk": wk, "cap": BIGCAP, "items": [{"tid": tid, "v": v}], "nolog": 1}])
    for tid, vs in per_type.items():
        S = types[tid]
        # sequences of 1..3 consecutive values on one stream
        seqs = []
        j = 0
        while j < len(vs):
            ln = 1 + (j % 3)
            seqs.append(vs[j:j + ln])
            j += ln
        for seq in seqs:
            picks = pairings if thorough and n % 5 == 0 else [pairings[(n * 7 + k * 11) % len(pairings)] for k in range(2)]
            for (wk, rk) in picks:
                if needs_skip(S) and ('fd' in wk or 'fd' in rk):
                    continue
                if has_kind(S, ("flt",)) and 'constexpr' in wk:
                    continue
                wkj = {"bounded": wk[2:], "limit": BIGCAP} if wk.startswith('b:') else wk
                rkj = {"bounded": rk[2:], "limit": BIGCAP} if rk.startswith('b:') else rk
                w = {"c": "w", "wk": wkj, "cap": BIGCAP, "items": [{"tid": tid, "v": v} for v in seq], "nolog": 1}
                r = {"c": "r", "rk": rkj, "src": "last", "items": [{"tid": tid} for _ in seq], "nolog": 1}
                if has_kind(S, ("hnd",)):
                    w["hmode"] = "affine"
                    r["hmode"] = "affine"
                groups.append([w, r])
                run.distinct.add((tid, wk, rk, vf.digest(seq)))
            n += 1
    cmds = with_group_resets(groups) + [{"c": "forms", "n": 96}]
    run.samples = groups[0][:2] + groups[len(groups) // 2][:2]
    run_codec(run, 'C01', cmds, mc=[MC_WIRE, mc_session(run)])
    return vf.finish(run, rule='every pool type x boundary/random values, 1-3 consecutive values per stream, writer/reader '
                               'pairings rotated over all kinds; distinct = distinct (type, writer, reader, values)')


# ---------------------------------------------------------------------------
# shared helpers for the codec checks

from concurrent.futures import ThreadPoolExecutor as _TPE

_bg = _TPE(max_workers=4)


def start_model_check(run, module, cfg, **kw):
    """(M) phase: TLC on the specification alone, concurrently with the stimulus run."""
    return _bg.submit(vf.tlc_model_check, run, module, cfg, **kw)


def small_values(run, types, nrandom=1, limit_bytes=600):
    for tid, S, v in stimuli_values(run, types, big=False, nrandom=nrandom):
        if len(json.dumps(v)) <= limit_bytes * 5:
            yield tid, S, v


def all_reader_kinds(S):
    ks = ["pedantic", "buffer", "sstream", "fstream"] + ([] if needs_skip(S) else ["fd", "fdburst", "fdintr"])
    out = list(ks)
    for k in ks:
        out.append({"bounded": k, "limit": BIGCAP})
    return out


def handle_opts(S, w=None, r=None):
    if has_kind(S, ("hnd",)):
        if w is not None:
            w["hmode"] = "affine"
        if r is not None:
            r["hmode"] = "affine"


# properties whose stimuli are valid encodings / values only: the thorough tier repeats them on the ASan+UBSan build
# (undefined behaviour that leaves the observable result intact is then an event no action accepts)
ALSO_SANITIZED = ("C01", "C03", "C05", "C06", "C07", "C10", "C15")


def run_codec(run, prop, cmds, flavour='plain', mc=None):
    futs = []
    if mc:
        mcs = mc if isinstance(mc, list) else [mc]
        for m in mcs:
            futs.append(start_model_check(run, *m[0], **m[1]))
    flavours = [flavour]
    if run.tier == 'thorough' and flavour == 'plain' and prop in ALSO_SANITIZED:
        flavours.append('asan')
    for fl in flavours:
        exe, types_path = vf.get_exe(run, fl)
        trace = vf.exec_commands(run, exe, cmds, prop.lower() + fl)
        rejected = vf.tlc_validate(run, 'TrCodec', 'TrCodec.cfg', trace, env_for(prop, types_path))
        add_rejections(run, rejected, key_codec(prop), index_cmds(cmds))
    for f in futs:
        f.result()


MC_WIRE = (('MC_Wire', 'MC_Wire.cfg'), {"workers": 8, "timeout": 900})


def mc_session(run):
    cfg = 'MC_Session_thorough.cfg' if run.tier == 'thorough' else 'MC_Session.cfg'
    return (('MC_Session', cfg), {"workers": 8, "timeout": 1800})


def mc_lang(run):
    cfg = 'MC_Lang_thorough.cfg' if run.tier == 'thorough' else 'MC_Lang.cfg'
    return (('MC_Lang', cfg), {"workers": 8, "timeout": 1800})


def pick(seq, n, rng):
    seq = list(seq)
    if len(seq) <= n:
        return seq
    return seq[:max(1, n // 2)] + rng.sample(seq[max(1, n // 2):], n - max(1, n // 2))


# ===========================================================================
# C05 truncation


def check_C05(run):
    exe, types_path = vf.get_exe(run, 'plain')
    types = load_types(types_path)
    thorough = run.tier == 'thorough'
    rng = random.Random(run.seed)
    per_type = {}
    for tid, S, v in small_values(run, types, nrandom=8 if thorough else 1):
        per_type.setdefault(tid, []).append(v)
    groups = []
    for tid, vs in per_type.items():
        S = types[tid]
        for v in pick(vs, 20 if thorough else 4, rng):
            w = {"c": "w", "wk": "pedantic", "cap": BIGCAP, "items": [{"tid": tid, "v": v}], "nolog": 1}
            r = {"c": "rcuts", "tid": tid, "rks": all_reader_kinds(S), "src": "last", "populated": 1}
            handle_opts(S, w, r)
            groups.append([w, r])
            run.distinct.add((tid, vf.digest(v)))
    # a table written with one definition and cut anywhere, read with another definition of the version pool
    # (the cut may fall inside an entry the reader skips, or inside padding)
    vts = [t for t in types if is_vpool(t)]
    n = 0
    for i, wt in enumerate(vts):
        full = rep_value(types[wt], rng, i % 7, big=(i % 4 == 1))
        nact = sum(1 for e in types[wt]["ents"] if e["act"])
        readers = vts if thorough and i % 8 == 0 else [vts[(i * 37 + 11 * j + 1) % len(vts)] for j in range(3)]
        for rt in readers:
            v = full if n % 3 else table_patterns(types[wt], full, [((1 << nact) - 1) & (0x5555 << (n % 2))])[0]
            w = {"c": "w", "wk": "pedantic", "cap": BIGCAP, "items": [{"tid": wt, "v": v}], "nolog": 1}
            r = {"c": "rcuts", "tid": rt, "rks": all_reader_kinds(types[rt]), "src": "last", "populated": 1}
            groups.append([w, r])
            run.distinct.add((wt, rt, vf.digest(v)))
            n += 1
    # an entry of 5000 and of 70000 bytes that the reading definition skips (unknown or deleted id), cut positions sampled
    hgroups = []
    strid = word(1, 8)
    have = [t for t in vts if any(e["id"] == strid and e["act"] and e["e"]["k"] == "str" for e in types[t]["ents"])]
    lack = [t for t in vts if not any(e["id"] == strid and e["act"] for e in types[t]["ents"])]
    for j, wt in enumerate(have[::max(1, len(have) // (12 if thorough else 4))]):
        for n_chars in (5000, 70000):
            v = rep_value(types[wt], rng, j % 7)
            for e in v["t"]:
                if e["id"] == strid and e.get("p"):
                    e["v"] = {"cw": 1, "b": [97 + (i % 26) for i in range(n_chars)]}
            for rt in [lack[(j * 5 + q) % len(lack)] for q in range(2)] + [wt]:
                hgroups.append([{"c": "w", "wk": "pedantic", "cap": 1 << 20, "items": [{"tid": wt, "v": v}], "nolog": 1, "lean": 1},
                                {"c": "rcuts", "tid": rt, "rks": ["pedantic", "buffer", "sstream", "fstream", "fd", {"bounded": "sstream", "limit": 1 << 20}],
                                 "src": "last", "stride": 211 if n_chars < 10000 else 3001, "lean": 1}])
    # the library's reader classes directly (typed block transfers): 16 encodings x every strict prefix
    cmds = with_group_resets(groups) + with_group_resets(hgroups, 1) + [{"c": "forms", "n": 96, "cuts": 1}]
    run.samples = groups[0] + groups[-1]
    run_codec(run, 'C05', cmds, mc=[MC_WIRE, mc_session(run)])
    run.exhaustive = False
    return vf.finish(run, rule='every pool type x values x EVERY cut position x every reader kind (buffer, pedantic, '
                               'stringstream, ifstream, fd, BoundedReader over each), plus tables written with one definition '
                               'of the version pool, cut at every position and read with another definition; '
                               'distinct = distinct (type, value) resp. (writer, reader, value)')


# ===========================================================================
# C06 sizes and capacities


def check_C06(run):
    exe, types_path = vf.get_exe(run, 'plain')
    types = load_types(types_path)
    thorough = run.tier == 'thorough'
    rng = random.Random(run.seed)
    per_type = {}
    for tid, S, v in small_values(run, types, nrandom=4 if thorough else 1, limit_bytes=300):
        per_type.setdefault(tid, []).append(v)
    cmds = []
    for tid, vs in per_type.items():
        S = types[tid]
        # (the last two: a bound far above the capacity of the wrapped buffer - Prepare must reach the wrapped writer)
        wks = ["buffer", "pedantic", {"bounded": "pedantic"}, {"bounded": "buffer"},
               {"bounded": "buffer", "limit": 1 << 20}, {"bounded": "pedantic", "limit": 1 << 20}]
        if not has_kind(S, ("flt",)):
            wks += ["constexpr", {"bounded": "constexpr"}]
        for v in pick(vs, 16 if thorough else 4, rng):
            c = {"c": "wcaps", "tid": tid, "v": v, "wks": wks, "extra": 2}
            cmds.append(c)
            run.distinct.add((tid, vf.digest(v)))
            if has_kind(S, ("hnd",)):
                # the estimate must also cover references that need the wider classes (the 129th handle of a
                # connection, descriptors above 2^31, negative references)
                for rs in range(len(REF_SETS)):
                    cmds.append({"c": "wcaps", "tid": tid, "v": v, "wks": wks[:3], "extra": 2, "refs": refs_for(rs) * 4})
                    cmds.append({"c": "wcaps", "tid": tid, "v": v, "wks": wks[:3], "extra": 2, "refs": refs_for(rs) * 4, "hmode": "refs-always"})
    # every other value (medium and large): estimate vs. bytes only (no capacity sweep)
    for tid, S, v in stimuli_values(run, types, big=True, nrandom=0):
        if (tid, vf.digest(v)) not in run.distinct:
            cmds.append({"c": "wcaps", "tid": tid, "v": v, "wks": [], "extra": 0})
            run.distinct.add((tid, vf.digest(v)))
    cmds = with_resets(cmds, 6) + [{"c": "forms", "n": 96, "cuts": 1}]
    run.samples = [c for c in cmds if c.get("c") == "wcaps"][:3]
    run_codec(run, 'C06', cmds, mc=MC_WIRE)
    return vf.finish(run, rule='every pool type x values x every capacity 0..GetSize+2 x {BufferWriter, PedanticBufferWriter, '
                               'ConstexprBufferWriter, BoundedWriter over each}; distinct = distinct (type, value)')


# ===========================================================================
# C10 fault propagation

R_CODES = [12, 14, 16, 17]
W_CODES = [13, 14, 16, 17]


def check_C10(run):
    exe, types_path = vf.get_exe(run, 'plain')
    types = load_types(types_path)
    thorough = run.tier == 'thorough'
    rng = random.Random(run.seed)
    per_type = {}
    for tid, S, v in small_values(run, types, nrandom=3 if thorough else 1, limit_bytes=200):
        per_type.setdefault(tid, []).append(v)
    groups = []
    for tid, vs in per_type.items():
        S = types[tid]
        for i, v in enumerate(pick(vs, 12 if thorough else 3, rng)):
            wk = ["pedantic", "sstream", {"bounded": "pedantic", "limit": BIGCAP}][i % 3]
            rk = ["pedantic", "sstream", {"bounded": "buffer", "limit": BIGCAP}][i % 3]
            w = {"c": "w", "wk": "pedantic", "cap": BIGCAP, "items": [{"tid": tid, "v": v}], "nolog": 1}
            # the codes a primitive usually returns, plus two of all the others in rotation (a code singled out for
            # special treatment must not pass); handle transfers are tried with every code
            allc = list(range(1, 19))
            extra = [allc[(7 * len(groups) + 3 * i) % 18], allc[(11 * len(groups) + 5 * i + 9) % 18]]
            hnd = has_kind(S, ("hnd",))
            rf = {"c": "rfaults", "tid": tid, "rk": rk, "src": "last", "codes": allc if hnd else sorted(set(R_CODES + extra))}
            wf = {"c": "wfaults", "tid": tid, "v": v, "wk": wk, "cap": 4096, "codes": allc if hnd else sorted(set(W_CODES + extra))}
            handle_opts(S, w, rf)
            handle_opts(S, wf)
            groups.append([w, rf, wf])
            run.distinct.add((tid, vf.digest(v)))
    # payloads of more than 64 KiB and more than 1 MiB (an implementation that moves large payloads in pieces must stop at
    # the first piece that fails): a fault at every primitive call of the read, values not echoed into the trace
    bgroups = []
    for tid, n in (("vec<u8>", 70000), ("vec<u8>", (1 << 20) + 4097), ("vec<u8>", 3 * (1 << 20) + 17), ("str8", (1 << 20) + 300000),
                   ("vec<u64>", 300000), ("vec<u16>", 600001), ("str32", 300000)):
        if tid not in types:
            continue
        S = types[tid]
        if S["k"] == "str":
            v = {"cw": S["cw"], "b": [b for i in range(n) for b in word(97 + i % 26, S["cw"])]}
        else:
            v = {"n": [word((i * 7) % 251, S["e"]["w"]) for i in range(n)]}
        for rk in ("pedantic", "sstream", {"bounded": "buffer", "limit": 1 << 26}):
            bgroups.append([{"c": "w", "wk": "pedantic", "cap": 1 << 26, "items": [{"tid": tid, "v": v}], "nolog": 1, "lean": 1},
                            {"c": "rfaults", "tid": tid, "rk": rk, "src": "last", "codes": [12, 14, 16], "lean": 1}])
    # entries of 3 GiB and 9 GiB that the reader skips (unknown id, deleted entry), on a user-defined reader over an endless
    # source whose Skip only advances a counter: a fault at every primitive call, also should such a skip be made in pieces
    u64 = lambda x: [0x83] + word(x, 8)
    for size in (3 << 30, 9 << 30, (1 << 31) + 5):
        if "TA" in types:
            src = [0xb5, 0x00, 0x01, 77] + u64(size)
            bgroups.append([{"c": "rfaults", "tid": "TA", "rk": "sparse", "src": {"b": src}, "codes": [12, 14, 16], "lean": 1}])
        if "TB" in types:
            src = [0xb5] + u64(0x1122334455667788) + [0x02, 0x05] + u64(size) + [0x00, 0x01, 0x07]
            bgroups.append([{"c": "rfaults", "tid": "TB", "rk": "sparse", "src": {"b": src}, "codes": [12, 14, 16], "lean": 1}])
    cmds = with_group_resets(groups, 10) + with_group_resets(bgroups, 1)
    run.samples = groups[0]
    run_codec(run, 'C10', cmds, mc=mc_session(run))      # design level: a peer stops at the first error
    # the RPC layer: a fault at every primitive of each of the four pipe ends of a call
    ifaces = rpc_ifaces()
    ipath = os.path.join(run.work, 'ifaces.json')
    with open(ipath, 'w') as f:
        json.dump(ifaces, f)
    gen = vals.Gen(seed=run.seed, nrandom=1)
    rcmds = []
    for iname, I in ifaces.items():
        if iname == "calcpipe":
            continue
        for m in I["methods"]:
            void = m["ret"].get("k") == "void"
            if not m["bound"] and not void:
                continue
            for v in gen.values(m["args"])[:6 if thorough else 2]:
                # a method without a return value has no reply: only its request writer can fail on the caller's side
                for on in (("reqw",) if void else ("reqw", "repr", "reqr", "repw")):
                    for k in range(1, 16):
                        for e in ((13, 16) if on in ("reqw", "repw") else (12, 14)):
                            rcmds.append({"c": "rpc", "iface": iname,
                                          "calls": [{"m": m["calls"][0], "args": v, "fault": {"on": on, "k": k, "e": e}}]})
    rcmds = with_resets(rcmds, 60)
    exe, _ = vf.get_exe(run, 'plain')
    trace = vf.exec_commands(run, exe, rcmds, 'c10rpc')
    rejected = vf.tlc_validate(run, 'TrRpc', 'TrCodec.cfg', trace, {"PROP": "C10", "IFACES": ipath})
    add_rejections(run, rejected, key_rpc, index_cmds(rcmds))
    run.exhaustive = False
    return vf.finish(run, level='model_checking',
                     rule='every pool type x values x EVERY index k of the k-th primitive call of Read and of Write x every '
                          'error code the primitive may return; distinct = distinct (type, value)')


# ===========================================================================
# C11 prior contents


def vshape(v):
    """Which alternative / emptiness pattern a value has (not its contents)."""
    if isinstance(v, dict):
        if "o" in v:
            return "opt:" + ("some(" + vshape(v["o"][0]) + ")" if v["o"] else "none")
        if "r" in v:
            return "res:" + v["r"]
        if "i" in v:
            return "var:" + str(v["i"])
        if "t" in v:
            return "tab:" + ''.join('1' if e.get("p") else '0' for e in v["t"])
        if "n" in v:
            return "seq:" + ("n" if v["n"] else "0")
        if "kv" in v:
            return "map:" + ("n" if v["kv"] else "0")
        if "m" in v:
            return "m(" + ",".join(vshape(x) for x in v["m"]) + ")"
        if "b" in v:
            return "str:" + ("n" if v["b"] else "0")
        if "h" in v:
            return "hnd:" + ("none" if v["h"] == [255] * 8 else "some")
    return "w"


def check_C11(run):
    exe, types_path = vf.get_exe(run, 'asan')
    types = load_types(types_path)
    thorough = run.tier == 'thorough'
    rng = random.Random(run.seed)
    per_type = {}
    for tid, S, v in small_values(run, types, nrandom=3 if thorough else 1, limit_bytes=300):
        per_type.setdefault(tid, []).append(v)
    groups = []
    for tid, vs in per_type.items():
        S = types[tid]
        if S["k"] in ("ref",):
            continue
        # sum types (Optional / Result / Variant / tables ...) have few value *shapes*: every shape is read over every
        # shape; for the rest a sample
        by_shape = {}
        for x in vs:
            by_shape.setdefault(vshape(x), x)
        reps = list(by_shape.values())[:8]
        chosen = pick(vs, 12 if thorough else 4, rng)
        chosen += [x for x in reps if x not in chosen]
        for i, v in enumerate(chosen):
            priors = pick(vs, 10 if thorough else 3, rng)
            priors += [x for x in reps if x not in priors]
            w = {"c": "w", "wk": "pedantic", "cap": BIGCAP, "items": [{"tid": tid, "v": v}], "nolog": 1}
            fresh = {"c": "r", "rk": "pedantic", "src": "last", "items": [{"tid": tid}], "nolog": 1}
            handle_opts(S, w, fresh)
            g = [w, fresh]
            for pv in priors:
                r = {"c": "r", "rk": "pedantic", "src": "last", "items": [{"tid": tid, "prior": {"kind": "value", "v": pv}}], "nolog": 1}
                handle_opts(S, None, r)
                g.append(r)
            # destination left behind by a read of the same bytes that failed at primitive k
            for k in range(1, 13 if thorough else 6):
                r = {"c": "r", "rk": "pedantic", "src": "last",
                     "items": [{"tid": tid, "prior": {"kind": "failread", "b": "last", "k": k, "e": 16}}], "nolog": 1}
                handle_opts(S, None, r)
                g.append(r)
            # a cut encoding read first (fails by truncation), then the full one
            groups.append(g)
            run.distinct.add((tid, vf.digest(v)))
    # long strings / integral vectors (4097, 9000, 70000 elements: beyond page- and 64 KiB-sized thresholds), alone and
    # one level down, into destinations that hold a short value, a long value, or what a truncated read left behind
    def long_value(S, n, salt):
        k = S["k"]
        if k == "str":
            return {"cw": S["cw"], "b": [b for i in range(n) for b in word(97 + (i + salt) % 26, S["cw"])]}
        if k == "vec" and S["e"]["k"] == "int":
            return {"n": [word((i * 7 + salt) % 251, S["e"]["w"]) for i in range(n)]}
        return None
    def with_long(S, n, salt, base):
        if S["k"] in ("str", "vec"):
            return long_value(S, n, salt)
        if S["k"] in ("wrap", "ref"):
            return with_long(S["e"], n, salt, base)
        if S["k"] in ("struct", "tup", "pair"):
            for j, m in enumerate(S["m"]):
                lv = long_value(m, n, salt)
                if lv is not None:
                    v = {"m": list(base["m"])}
                    v["m"][j] = lv
                    return v
        if S["k"] == "opt":
            lv = long_value(S["e"], n, salt)
            return {"o": [lv]} if lv is not None else None
        if S["k"] == "var":
            for j, m in enumerate(S["m"]):
                lv = long_value(m, n, salt)
                if lv is not None:
                    return {"i": word(j, 4), "v": lv}
        return None
    long_tids = [t for t in ("str8", "str16", "str32", "vec<u8>", "vec<u16>", "vec<u64>", "SA", "SB", "tup<u8,str8,vec<u8>>",
                             "pair<u8,str8>", "opt<str8>", "opt<vec<u8>>", "var<i32,str8>", "WStr", "WVec") if t in types]
    lgroups = []
    for tid in long_tids:
        S = types[tid]
        base = per_type.get(tid, [None])[-1]
        esz = max([x.get("cw", x.get("e", {}).get("w", 1)) for x in walk(S) if x["k"] in ("str", "vec")] + [1])
        for n in ((4097, 9000, 70000 // esz) if thorough else (4097, 70000 // esz)):
            v = with_long(S, n, 1, base)
            if v is None:
                continue
            w = {"c": "w", "wk": "pedantic", "cap": 1 << 21, "items": [{"tid": tid, "v": v}], "nolog": 1}
            g = [w, {"c": "r", "rk": "pedantic", "src": "last", "items": [{"tid": tid}], "nolog": 1}]
            # priors: short values, a long one, and one about three times as long as what is being read (a destination that
            # must shrink)
            for pv in (per_type.get(tid, [])[:2] + [with_long(S, 5000, 2, base), with_long(S, 3 * n + 11, 3, base)]):
                if pv is not None:
                    g.append({"c": "r", "rk": "pedantic", "src": "last", "items": [{"tid": tid, "prior": {"kind": "value", "v": pv}}], "nolog": 1})
            for k in (2, 3, 4):
                g.append({"c": "r", "rk": "pedantic", "src": "last",
                          "items": [{"tid": tid, "prior": {"kind": "failread", "b": "last", "k": k, "e": 16}}], "nolog": 1})
            lgroups.append(g)
            run.distinct.add((tid, n))
    cmds = with_group_resets(groups, 6) + with_group_resets(lgroups, 1)
    run.samples = groups[0][:4]
    run_codec(run, 'C11', cmds, flavour='asan', mc=MC_WIRE)      # Dec is a function of the bytes alone (W1)
    return vf.finish(run, rule='every pool type x pairs (prior value, encoding) with priors produced by assignment, and by reads '
                               'that failed at primitive k; read compared with the read into a fresh object; ASan/UBSan build, '
                               'lifetime ledger of Tracked elements must balance; distinct = distinct (type, value)')


# ===========================================================================
# C04 / C02 hostile input


def hostile_cmds(run, types, thorough, for_c02):
    rng = random.Random(run.seed)
    per_type = {}
    vp = sorted(t for t in types if t.startswith('TV_') or t.startswith('S_TV_') or t.startswith('vec<TV_'))
    vp_keep = set(vp if thorough else vp[::12])
    for tid, S, v in small_values(run, types, nrandom=4 if thorough else 1, limit_bytes=150):
        if is_unbounded(S) or (tid in vp and tid not in vp_keep):
            continue     # (the table version pool is C07/C08's subject; a sample of it is enough here)
        per_type.setdefault(tid, []).append(v)
    groups = []
    rks_c02 = ["buffer", "pedantic", {"bounded": "buffer", "limit": 64}, {"bounded": "pedantic", "limit": BIGCAP},
               {"bounded": "sstream", "limit": 48}]
    rks_c04 = ["pedantic", "sstream", "buffer", {"bounded": "pedantic", "limit": BIGCAP}, "fstream"]
    n = 0
    for tid, vs in per_type.items():
        S = types[tid]
        if S["k"] == "ref" or (S["k"] in ("opt", "res") and False):
            pass
        for v in pick(vs, 8 if thorough else 2, rng):
            w = {"c": "w", "wk": "pedantic", "cap": BIGCAP, "items": [{"tid": tid, "v": v}], "nolog": 1}
            hopts = {}
            if has_kind(S, ("hnd",)):
                w["refs"] = [word(x, 8) for x in range(60, 124)]
                hopts = {"handles": {str(x): x * 3 + 1 for x in range(60, 124)}}
            g = [w]
            muts = []
            # deterministic core: every byte position x a set of hostile byte values (single-byte defects)
            hostile_bytes = [0x00, 0x01, 0x7f, 0x80, 0x81, 0x83, 0x84, 0x87, 0x88, 0xb5, 0xb9, 0xba, 0xbc, 0xbd, 0xbe, 0xc0, 0xff]
            nbytes = min(24, max(1, len(json.dumps(v)) // 3))
            for pos in range(0, nbytes):
                for hb in (hostile_bytes if pos < 3 or thorough else hostile_bytes[::3]):
                    muts.append(([{"op": "set", "at": pos, "val": hb}], True))
            for pos in range(0, nbytes):
                for delta in (1, 255, 2, 254, 3):
                    muts.append(([{"op": "add", "at": pos, "val": delta}], True))
            # all 256 prefix bytes at the root
            if n % (2 if thorough else 6) == 0:
                for hb in range(256):
                    muts.append(([{"op": "set", "at": 0, "val": hb}], True))
            if thorough and n % 4 == 1:
                # every byte value at the next three positions as well (first length / count / nested prefix bytes)
                for pos in (1, 2, 3):
                    for hb in range(256):
                        muts.append(([{"op": "set", "at": pos, "val": hb}], True))
            # multi-byte damage: length fields overwritten with 2^k-1, splices, truncations
            for _ in range(60 if thorough else 8):
                m = []
                for _ in range(rng.randrange(1, 4)):
                    op = rng.choice(["set", "xor", "insert", "erase", "trunc"])
                    if op in ("set", "xor"):
                        m.append({"op": op, "at": rng.randrange(64), "val": rng.choice([0xff, 0x83, 0x87, 0x7f, rng.randrange(256)])})
                    elif op == "insert":
                        m.append({"op": "insert", "at": rng.randrange(64), "b": rng.choice([[0x83] + [0xff] * 8, [0x82, 0xff, 0xff, 0xff, 0x7f], [0x81, 0xff, 0xff], [rng.randrange(256)]])})
                    elif op == "erase":
                        m.append({"op": "erase", "at": rng.randrange(64), "n": rng.randrange(1, 4)})
                    else:
                        m.append({"op": "trunc", "k": rng.randrange(64)})
                muts.append((m, False))
            for mi, (m, single) in enumerate(muts):
                rk = (rks_c02 if for_c02 else rks_c04)[(n + mi) % 5]
                item = {"tid": tid}
                if for_c02:
                    item["inspect"] = 1
                    item["reread"] = "last"
                r = {"c": "r", "rk": rk, "src": "last", "mut": m, "items": [item], "nolog": 1, "tag": {"cat": single}}
                r.update(hopts)
                g.append(r)
            groups.append(g)
            run.distinct.add((tid, vf.digest(v)))
            n += 1
    # a fungible vector peer sends more elements than the logical buffer's array holds: counts just above the
    # capacity and counts that wrap to an in-capacity value when narrowed to the size member (n + 2^8, n + 2^16)
    gen = vals.Gen(seed=run.seed, nrandom=0)
    for tid, S in types.items():
        if not tid.startswith('SL') or ('SV' + tid[2:]) not in types:
            continue
        vt = 'SV' + tid[2:]
        g = []
        lb = [m for m in S["m"] if m["k"] == "lbuf"][0]
        ev = gen.values(lb["e"], 2)
        cap = lb["n"]
        counts = [cap + 1, cap + 2, 256, 257, 256 + min(cap, 2), 127, 128, 255]
        if thorough:
            counts += [65536, 65536 + min(cap, 2)]
        base = gen.values(types[vt])[0]
        for cnt in sorted(set(counts)):
            v = {"m": []}
            for i, m in enumerate(S["m"]):
                if m["k"] == "lbuf":
                    v["m"].append({"n": [ev[(i + j) % len(ev)] for j in range(cnt)]})
                else:
                    v["m"].append(base["m"][i])
            g.append({"c": "w", "wk": "pedantic", "cap": BIGCAP * 4, "items": [{"tid": vt, "v": v}], "nolog": 1})
            for rk in (rks_c02 if for_c02 else rks_c04)[:3]:
                if isinstance(rk, dict) and rk.get("limit", 0) < BIGCAP:
                    rk = {"bounded": rk["bounded"], "limit": BIGCAP * 4}
                item = {"tid": tid}
                if for_c02:
                    item["inspect"] = 1
                g.append({"c": "r", "rk": rk, "src": "last", "items": [item], "nolog": 1, "tag": {"cat": True}})
        groups.append(g)
    # TLC-generated field-level mutants (Hostile.tla): every integer field of a valid encoding re-encoded in every
    # other class of the integer format and with overflowing / off-by-one / huge values
    pairs = []
    for tid, vs in per_type.items():
        S = types[tid]
        if S["k"] == "ref":
            continue
        for v in (vs[:2] if thorough else vs[:1]):
            if len(json.dumps(v)) < 400:
                pairs.append([tid, v])
    if pairs:
        vpath = os.path.join(run.work, 'hostile_vals_%d.json' % len(run.phases))
        with open(vpath, 'w') as f:
            json.dump(pairs, f)
        os.environ["VALS"] = vpath
        os.environ["TYPES"] = run.types_path
        fm = vf.tlc_generate(run, 'Gen_Hostile', {}, timeout=900, label='hostile')
        g = []
        big = ("plus2^32", "2^32", "2^63", "max", "double")
        for i, m in enumerate(fm):
            rk = (rks_c02 if for_c02 else rks_c04)[i % 5]
            if m["label"][0] == "value" and m["label"][2] in big and not for_c02 and (i % 40):
                # multi-gigabyte lengths on readers whose Ensure() cannot check are a recorded finding and cost
                # seconds each (the allocation succeeds): all but every 40th go to the checking readers
                rk = ["pedantic", "buffer", {"bounded": "pedantic", "limit": BIGCAP}][i % 3]
            # (for C02 the small byte limits of the bounded readers are kept: the limit is the input length a
            #  BoundedReader over a stream vouches for, and the allocation bound is stated relative to it)
            if isinstance(rk, dict) and rk.get("limit", 0) < BIGCAP and not for_c02:
                rk = {"bounded": rk["bounded"], "limit": BIGCAP}
            item = {"tid": m["tid"]}
            if for_c02:
                item["inspect"] = 1
            g.append({"c": "r", "rk": rk, "src": {"b": m["b"]}, "items": [item], "nolog": 1,
                      "tag": {"cat": True, "label": m["label"]}})
            if len(g) >= 50:
                groups.append(g)
                g = []
        if g:
            groups.append(g)
    # short arbitrary strings over a hostile alphabet, read as every type
    alpha = [0x00, 0x01, 0x7f, 0x80, 0x81, 0x84, 0xb5, 0xb9, 0xba, 0xbc, 0xbd, 0xbe, 0xc0, 0xff]
    for tid, S in types.items():
        if is_unbounded(S) or (tid in vp and tid not in vp_keep):
            continue
        g = []
        for _ in range(100 if thorough else 8):
            b = [rng.choice(alpha) for _ in range(rng.randrange(0, 7))]
            item = {"tid": tid}
            if for_c02:
                item["inspect"] = 1
            g.append({"c": "r", "rk": (rks_c02 if for_c02 else rks_c04)[len(g) % 5], "src": {"b": b}, "items": [item], "nolog": 1,
                      "tag": {"cat": False}})
        groups.append(g)
    return groups


def check_C04(run):
    exe, types_path = vf.get_exe(run, 'plain')
    run.types_path = types_path
    types = load_types(types_path)
    groups = hostile_cmds(run, types, run.tier == 'thorough', for_c02=False)
    cmds = with_group_resets(groups, 4)
    run.samples = groups[0][:3]
    run_codec(run, 'C04', cmds, mc=[MC_WIRE, mc_lang(run)])
    return vf.finish(run, rule='valid encodings of every pool type damaged by single-byte replacement at every leading position '
                               '(incl. all 256 prefix bytes), multi-byte splices/erasures/truncations, and short strings over a '
                               'hostile alphabet; accept/reject, value, consumed length compared with Dec of Wire.tla; category '
                               'compared on single-defect inputs; distinct = distinct (type, base value)')


def check_C02(run):
    exe, types_path = vf.get_exe(run, 'asan')
    run.types_path = types_path
    types = load_types(types_path)
    groups = hostile_cmds(run, types, run.tier == 'thorough', for_c02=True)
    cmds = with_group_resets(groups, 4)
    run.samples = groups[0][:3]
    # allocation accounting runs in the plain build; memory errors are sensed in the ASan/UBSan build
    run_codec(run, 'C02', cmds, flavour='asan')
    run_codec(run, 'C02', cmds, flavour='plain')
    return vf.finish(run, rule='hostile inputs as C04 read through BufferReader, PedanticBufferReader and BoundedReader over '
                               'them; every primitive request checked against the source bounds, allocation against '
                               '4096 + 256 x input length, destination inspected and re-read; ASan/UBSan build as sensor')


# ===========================================================================
# C16 / C17: readers and writers as automata (IO.tla)


def io_size(n):
    return n if n >= 0 else {"huge": -n}


def io_ops(seq, side, k):
    ops = []
    for j, c in enumerate(seq):
        o = {"op": c["op"], "n": io_size(c["n"])}
        # block transfers are made with element widths 1/2/4/8 when the size is a multiple of the width
        if c["op"] in ("rn", "wn") and c["n"] > 0:
            for wdt in (8, 4, 2):
                if c["n"] % wdt == 0 and (k + j) % 2 == 0:
                    o["w"] = wdt
                    break
        if side == "w":
            o["pad"] = (0x00, 0xAA, 0xFF)[(k + j) % 3]
            o["seed"] = (17 * (k + 1) + 29 * j) % 251
        ops.append(o)
    return ops


def key_io(prop):
    def fn(ev, why, cmd=None):
        if ev.get("e") == "CT":
            return '%s|CT|%s' % (prop, ','.join(why)), 'compile-time serialisation cases violate: %s' % ', '.join(why)
        if ev.get("e") != "IO":
            return abnormal_key(prop, ev, why, cmd)
        k = '%s|IO|%s|%s|%s' % (prop, ev.get("side"), ev.get("kind"), ','.join(why))
        return k, 'call sequence on %s%s %s (%s) violates: %s (command %s)' % (
            'Bounded over ' if ev.get("bounded") else '', ev.get("kind"), 'reader' if ev.get("side") == 'r' else 'writer',
            'direct' if ev.get("direct") else 'instrumented', ', '.join(why), ev.get("idx"))
    return fn


def run_io(run, prop, cmds, flavour='plain'):
    exe, types_path = vf.get_exe(run, flavour)
    trace = vf.exec_commands(run, exe, cmds, prop.lower() + flavour)
    rejected = vf.tlc_validate(run, 'TrIO', 'TrCodec.cfg', trace, {"PROP": prop})
    add_rejections(run, rejected, key_io(prop), index_cmds(cmds))


def gen_sequences(run, depth_full, depth_sample, nsample, rng):
    """TLC-generated call sequences: all of length depth_full, a sample of length depth_sample."""
    out = {}
    for side in ("r", "w"):
        full = vf.tlc_generate(run, 'Gen_IO', {"Side": side, "Depth": depth_full})
        more = vf.tlc_generate(run, 'Gen_IO', {"Side": side, "Depth": depth_sample})
        rng.shuffle(more)
        out[side] = (full, more[:nsample])
    return out


def random_sequences(rng, side, count, length):
    ops = ["ensure", "r1", "rn", "skip", "pad"] if side == "r" else ["prepare", "w1", "wn", "skipw", "padw"]
    seqs = []
    for _ in range(count):
        s = []
        for _ in range(length):
            op = rng.choice(ops)
            n = rng.choice([0, 1, 1, 2, 3, 4, 4, 5, 8, 8, 9, 16, -1, -2, -9])
            if op in ("r1", "w1", "pad", "padw"):
                n = 1
            if op in ("rn", "wn") and n < 0:
                n = 2
            s.append({"op": op, "n": n})
        seqs.append(s)
    return seqs


def check_C16(run):
    thorough = run.tier == 'thorough'
    rng = random.Random(run.seed)
    fut = [start_model_check(run, 'MC_IO', 'MC_IO_%s%s.cfg' % (s, '_thorough' if run.tier == 'thorough' else ''), workers=8,
                              label='io' + s, timeout=2400) for s in ("r", "w")]
    # the machine-arithmetic model of the wrappers: TLC with a 4-bit size_t (and its refinement of IO.tla),
    # Apalache with the 64-bit one (inductive invariant: every limit, index and request size)
    fut.append(start_model_check(run, 'MC_Confine', 'MC_Confine.cfg', workers=4, label='confine'))
    fut.append(_bg.submit(vf.apalache_inductive, run, 'Confine', 'CInit64', 'Init', 'IndInit', 'IndInv', 'Safety'))
    seqs = gen_sequences(run, 2, 3, 20000 if thorough else 1500, rng)
    cmds = []
    k = 0
    for side in ("r", "w"):
        full, sample = seqs[side]
        kinds = ["pedantic", "buffer", "sstream", "fd"] if side == "r" else ["pedantic", "buffer", "constexpr", "sstream", "fd"]
        configs = [(kind, lim, ln, fk) for kind in kinds for lim in (0, 1, 2, 3, 4, 5, 9) for ln in (0, 1, 3, 4, 12) for fk in (0, 1, 2)]
        def emit(seq, cfg):
            nonlocal k
            kind, lim, ln, fk = cfg
            if kind == "fd" and any(c["op"] in ("skip", "pad", "skipw", "padw") for c in seq):
                return
            c = {"c": "io", "side": side, "kind": kind, "bounded": True, "direct": False, "limit": lim,
                 "ops": io_ops(seq, side, k)}
            if side == "r":
                c["src"] = [(16 + 7 * i) % 256 for i in range(ln)]
            else:
                c["cap"] = ln
            if fk:
                c["fault"] = {"k": fk, "e": (16, 14, 17)[k % 3]}
            # every third command copy-constructs the wrapper somewhere in the sequence and goes on with the copy
            if k % 3 == 0 and len(seq) > 1:
                c["copyat"] = 1 + (k // 3) % (len(seq) - 1)
            cmds.append(c)
            k += 1
        # every sequence of length 2 under every configuration (limit x source length / capacity x failing call)
        for seq in full:
            for cfg in (configs if thorough else configs[k % 3::3]):
                emit(seq, cfg)
        # sampled sequences of length 3 and random longer ones, rotating configurations
        for seq in sample + random_sequences(rng, side, 10000 if thorough else 600, 12):
            for j in range(3 if thorough else 1):
                emit(seq, configs[(k * 7 + j) % len(configs)])
        # size ladder: requests and limits on both sides of block sizes an implementation might introduce
        for n in (31, 32, 33, 64, 127, 128, 129, 255, 256, 257, 4095, 4096, 4097) + ((65535, 65536, 65537) if thorough else ()):
            rd = side == "r"
            shapes = [[{"op": "r1" if rd else "w1", "n": 1}, {"op": "skip" if rd else "skipw", "n": n}, {"op": "rn" if rd else "wn", "n": 4}],
                      [{"op": "ensure" if rd else "prepare", "n": n}, {"op": "rn" if rd else "wn", "n": n}, {"op": "pad" if rd else "padw", "n": 1}],
                      [{"op": "rn" if rd else "wn", "n": 3}, {"op": "rn" if rd else "wn", "n": n}, {"op": "r1" if rd else "w1", "n": 1}]]
            for seq in shapes:
                total = sum(c["n"] for c in seq if c["op"] not in ("ensure", "prepare", "pad", "padw"))
                for kind in kinds:
                    for lim in (total - 1, total, total + 40):
                        emit(seq, (kind, lim, total + 50 if lim != total else total, 0))
    cmds = with_resets(cmds, 200)
    run.samples = [c for c in cmds if c.get("c") == "io"][:2] + [c for c in cmds if c.get("side") == "w"][:1]
    run.distinct = set(vf.digest(c) for c in cmds)
    run_io(run, 'C16', cmds)
    for f in fut:
        f.result()
    return vf.finish(run, rule='TLC-generated call sequences (all of length 2, sampled of length 3) and random sequences of '
                               'length 12 over sizes {0,1,2,3,5,2^64-1,2^64-2,...} on BoundedReader/BoundedWriter over an '
                               'instrumented wrapped object (every kind) x limits 0..5 x source length/capacity x failing '
                               'call position; distinct = distinct commands')


def check_C17(run):
    thorough = run.tier == 'thorough'
    rng = random.Random(run.seed)
    fut = [start_model_check(run, 'MC_IO', 'MC_IO_%s%s.cfg' % (s, '_thorough' if run.tier == 'thorough' else ''), workers=8,
                              label='io' + s, timeout=2400) for s in ("r", "w")]
    # the descriptor classes at system-call grain: bursts, short counts and EINTR are stuttering steps of the contract
    fut.append(start_model_check(run, 'MC_FdEnv', 'MC_FdEnv.cfg', workers=2, label='fdenv'))
    seqs = gen_sequences(run, 2, 3, 12000 if thorough else 1000, rng)
    cmds = []
    k = 0
    for side in ("r", "w"):
        full, sample = seqs[side]
        kinds = (["pedantic", "buffer", "sstream", "fstream", "fd", "fdburst", "fdbad", "fdintr"] if side == "r"
                 else ["pedantic", "buffer", "constexpr", "sstream", "fd", "lstream", "fdfull", "fdpart", "fdintr"])
        lens = (0, 1, 2, 3, 4, 6, 12) if side == "r" else (0, 1, 2, 3, 4, 6)
        allseqs = list(full) + list(sample) + random_sequences(rng, side, 6000 if thorough else 500, 10)
        for seq in allseqs:
            for ln in (lens if (thorough or len(seq) <= 2) else (lens[k % 6],)):
                for kind in kinds:
                    for bounded in (False, True):
                        if kind in ("fd", "fdburst", "fdfull", "fdbad", "fdpart", "fdintr") and any(c["op"] in ("skip", "pad", "skipw", "padw") for c in seq):
                            continue
                        if not bounded and any(c["op"] in ("pad", "padw") for c in seq):
                            continue
                        # an unbounded sink asked to skip ~2^64 bytes legitimately never finishes
                        if kind in ("sstream", "fd", "fdintr") and side == "w" and any(c["op"] == "skipw" and c["n"] < 0 for c in seq):
                            continue
                        if bounded and (k % 4) and len(seq) > 2:
                            k += 1
                            continue
                        ops = io_ops(seq, side, k)
                        # element widths 1/2/4/8 on block transfers whose size is a multiple of the width
                        for o in ops:
                            if o["op"] in ("rn", "wn") and isinstance(o["n"], int):
                                for wdt in (8, 4, 2):
                                    if o["n"] and o["n"] % wdt == 0 and (k + o["n"]) % 2 == 0:
                                        o["w"] = wdt
                                        break
                        c = {"c": "io", "side": side, "kind": kind, "bounded": bounded, "direct": True,
                             "limit": (k % 7) if bounded else 0, "ops": ops}
                        if side == "r":
                            c["src"] = [(33 + 5 * i) % 256 for i in range(ln)]
                        else:
                            c["cap"] = ln
                        if bounded and k % 3 == 0 and len(seq) > 1:
                            c["copyat"] = 1 + (k // 3) % (len(seq) - 1)
                        cmds.append(c)
                        k += 1
    # blocks larger than PIPE_BUF into a pipe that has room for only part of them (a short write must not pass for a
    # complete one), alone and after smaller writes
    for cap in (0, 1, 100, 2500, 4095):
        for pre in ([], [{"op": "w1", "n": 1}], [{"op": "wn", "n": 3}, {"op": "wn", "n": 8}]):
            for big in (4097, 5000, 6000, 70000):
                for bounded in (False, True):
                    seq = pre + [{"op": "wn", "n": big}, {"op": "w1", "n": 1}]
                    cmds.append({"c": "io", "side": "w", "kind": "fdpart", "bounded": bounded, "direct": True,
                                 "limit": 100000 if bounded else 0, "ops": io_ops(seq, "w", k), "cap": cap})
                    k += 1
    # size ladder: every primitive with request sizes on both sides of the block sizes an implementation might introduce
    # (32, 64, 128, 256, 512, 4096, 64 Ki), with a source / capacity that just suffices and one that is one byte short
    ladder = [31, 32, 33, 63, 64, 65, 96, 127, 128, 129, 160, 255, 256, 257, 511, 512, 513, 1024, 4095, 4096, 4097]
    if thorough:
        ladder += [8191, 8192, 8193, 65535, 65536, 65537]
    for side in ("r", "w"):
        lkinds = (["pedantic", "buffer", "sstream", "fstream", "fd", "fdintr"] if side == "r"
                  else ["pedantic", "buffer", "constexpr", "sstream", "fd", "lstream", "fdintr"])
        for kind in lkinds:
            for bounded in (False, True):
                for li, n in enumerate(ladder):
                    if n > 4097 and kind in ("fd", "fdintr"):
                        continue
                    shapes = []
                    if side == "r":
                        if not kind.startswith("fd"):
                            shapes.append([{"op": "r1", "n": 1}, {"op": "skip", "n": n}, {"op": "rn", "n": 4}, {"op": "r1", "n": 1}])
                        shapes.append([{"op": "ensure", "n": n}, {"op": "rn", "n": n}, {"op": "r1", "n": 1}])
                        shapes.append([{"op": "rn", "n": 3}, {"op": "rn", "n": n}, {"op": "rn", "n": 2}])
                    else:
                        if not kind.startswith("fd"):
                            shapes.append([{"op": "w1", "n": 1}, {"op": "skipw", "n": n}, {"op": "wn", "n": 4}, {"op": "w1", "n": 1}])
                        shapes.append([{"op": "prepare", "n": n}, {"op": "wn", "n": n}, {"op": "w1", "n": 1}])
                        shapes.append([{"op": "wn", "n": 3}, {"op": "wn", "n": n}, {"op": "wn", "n": 2}])
                    for si, seq in enumerate(shapes):
                        total = sum(c["n"] for c in seq if c["op"] not in ("ensure", "prepare"))
                        # alternately: exactly enough, one byte short (the last call must fail, nothing before it)
                        ln = total if (li + si + k) % 2 == 0 else total - 1
                        if kind == "buffer" and side == "w":
                            ln = total          # the unchecked writer may only be used within its capacity
                        c = {"c": "io", "side": side, "kind": kind, "bounded": bounded, "direct": True,
                             "limit": (total + 3 if (li + si) % 3 else total - 1) if bounded else 0, "ops": io_ops(seq, side, k)}
                        if side == "r":
                            c["src"] = [(33 + 5 * i) % 256 for i in range(ln)]
                        else:
                            c["cap"] = ln
                        cmds.append(c)
                        k += 1
    # a sink that stops taking bytes must end a Skip of ~2^64 bytes at once; a change that loses this would make each
    # such command run into the executor's timeout, so they go last (after everything that can be judged quickly)
    slow = [c for c in cmds if c["kind"] == "lstream" and any(o["op"] == "skipw" and not isinstance(o["n"], int) for o in c["ops"])]
    slow_ids = set(id(c) for c in slow)
    cmds = [c for c in cmds if id(c) not in slow_ids] + slow[:200]
    cmds.append({"c": "ct"})      # 67 generated constexpr values serialised in constant expressions and at run time
    cmds = with_resets(cmds, 200)
    run.samples = [c for c in cmds if c.get("c") == "io"][:2] + [c for c in cmds if c.get("side") == "w"][:1]
    run.distinct = set(vf.digest(c) for c in cmds)
    run_io(run, 'C17', cmds)
    for f in fut:
        f.result()
    return vf.finish(run, rule='the same TLC-generated and random call sequences executed directly on every reader '
                               '(BufferReader, PedanticBufferReader, StreamReader over stringstream and ifstream, FdReader, '
                               'BoundedReader over each) and every writer (Buffer within capacity, Pedantic, Constexpr, Stream, '
                               'Fd, StreamWriter over a stream that takes only cap bytes, FdWriter on /dev/full and on a nearly full non-blocking pipe, FdReader on an unreadable descriptor, BoundedWriter '
                               'over each), element widths 1/2/4/8, accessors (size/capacity/remaining/empty) after every call; '
                               'distinct = distinct commands')


# ===========================================================================
# C18 SipHash / C20 HostEndian


def key_fn(prop):
    def fn(ev, why, cmd=None):
        if ev.get("e") in ("UB", "Crash", "Exc", "Timeout", "BadCmd"):
            return abnormal_key(prop, ev, why, cmd)
        return '%s|%s|%s' % (prop, ev.get("e"), ','.join(why)), 'event %s violates: %s (command %s)' % (
            ev.get("e"), ', '.join(why), ev.get("idx"))
    return fn


def run_fn(run, prop, cmds, flavour='plain'):
    exe, types_path = vf.get_exe(run, flavour)
    trace = vf.exec_commands(run, exe, cmds, prop.lower(), per_cmd_timeout=120)
    rejected = vf.tlc_validate(run, 'TrFn', 'TrCodec.cfg', trace, {"PROP": prop})
    add_rejections(run, rejected, key_fn(prop), index_cmds(cmds))


def check_C18(run):
    thorough = run.tier == 'thorough'
    rng = random.Random(run.seed)
    fut = start_model_check(run, 'MC_Fn', 'MC_Fn.cfg', workers=2)
    keys = [(0, 0), ((1 << 64) - 1, (1 << 64) - 1), (0x0706050403020100, 0x0f0e0d0c0b0a0908), (1, 0), (0, 1 << 63),
            (0xbaadf00ddeadbeef, 0x0123456789abcdef), (0xdeadcafebaadf00d, 0x0123456789abcdef)]
    cmds = [{"c": "names"}, {"c": "sip", "ctarrays": 1}]
    lengths = list(range(0, 131)) + list(range(250, 261)) + [511, 512, 513, 1023, 1024, 4099] if thorough else list(range(0, 34)) + [63, 64, 65, 255, 256, 257]
    k = 0
    for n in lengths:
        for variant in range(6 if thorough else 1):
            k0, k1 = keys[k % len(keys)] if variant == 0 else (rng.getrandbits(64), rng.getrandbits(64))
            if variant == 0 and k % 3 == 0:
                msg = [(i * 37 + 0x80 + n) % 256 for i in range(n)]     # many bytes >= 0x80
            elif k % 3 == 1:
                msg = [i % 128 for i in range(n)]                         # ASCII only
            else:
                msg = [rng.randrange(256) for _ in range(n)]
            cmds.append({"c": "sip", "k0": word(k0, 8), "k1": word(k1, 8), "msg": msg})
            run.distinct.add((n, k0, k1, vf.digest(msg)))
            k += 1
    # zero bytes at the start, in the middle, at the end, and nothing but zeros: also through the array entry point
    # (fixed sizes instantiated in the executor), where every byte of the array counts
    for n in list(range(1, 18)) + [23, 24, 25, 31, 32, 33, 64]:
        for zs in ({0}, {n // 2}, {n - 1}, {n // 3, n - 1}, set(range(n)), set(range(n // 2, n))):
            msg = [0 if i in zs else (65 + 3 * i) % 256 or 1 for i in range(n)]
            k0, k1 = keys[k % len(keys)]
            cmds.append({"c": "sip", "k0": word(k0, 8), "k1": word(k1, 8), "msg": msg})
            run.distinct.add((n, k0, k1, vf.digest(msg)))
            k += 1
    cmds = with_resets(cmds, 4)
    run.samples = cmds[1:4]
    run_fn(run, 'C18', cmds)
    fut.result()
    return vf.finish(run, rule='messages of every length 0..33 (0..80 and 250..260 thorough) incl. every residue mod 8 and >255, '
                               'bytes over the whole range incl. zero bytes anywhere, presented as uint8_t and as char buffers through the '
                               'pointer+size and the array entry points (and constant arrays hashed at compile time), fixed/patterned/random '
                               '128-bit keys; 26 generated names x (NOP_TABLE_NS hash at compile time, at run time and on the '
                               'wire; NOP_INTERFACE / NOP_INTERFACE32 hash; NOP_METHOD selector); distinct = distinct (length, '
                               'key, message)')


def check_C20(run):
    thorough = run.tier == 'thorough'
    rng = random.Random(run.seed)
    fut = start_model_check(run, 'MC_Fn', 'MC_Fn.cfg', workers=2)
    cmds = []
    ops = ["FromLittle", "ToLittle", "FromBig", "ToBig"]
    types = [("u8", 1), ("i8", 1), ("u16", 2), ("i16", 2), ("u32", 4), ("i32", 4), ("u64", 8), ("i64", 8), ("f32", 4), ("f64", 8)]
    for t, w in types:
        if w == 1:
            values = [[x] for x in range(256)]
        elif w == 2:
            values = [word(x, 2) for x in range(65536)]
        else:
            values = [word(v, w) for v in vals.int_boundaries(w, t[0] == 'i')]
            values += [word(int.from_bytes(bytes(range(1, w + 1)), 'little'), w), word((1 << (8 * w)) - 1, w)]
            values += [word(1 << (8 * i), w) for i in range(w)] + [word(0x80 << (8 * i), w) for i in range(w)]
            if t[0] == 'f':
                values += vals.float_words(w, rng)
            values += [word(rng.getrandbits(8 * w), w) for _ in range(400 if thorough else 60)]
        for op in ops:
            for i in range(0, len(values), 512):
                cmds.append({"c": "end", "T": t, "op": op, "in": values[i:i + 512]})
            run.distinct.add((t, op, len(values)))
    # exhaustive 32-bit part: the byte map is emitted by TLC from Endian.tla, the executor only applies it
    exe, _ = vf.get_exe(run, 'plain')
    facts = vf.exec_commands(run, exe, [{"c": "facts"}], 'facts')
    host_le = json.loads(open(facts).readline())["little_endian"]
    maps = vf.tlc_generate(run, 'Gen_Endian', {"HostLE": bool(host_le)})
    if not maps:
        raise vf.MachineryError('Gen_Endian emitted no map')
    for t in ("u32", "i32", "f32"):
        for op in ops:
            c = {"c": "end32", "T": t, "op": op, "map": maps[0][op]}
            if not thorough:
                c["count"] = 1 << 27      # the quick tier sweeps the first 2^27 inputs, the thorough tier all 2^32
            cmds.append(c)
    cmds = with_resets(cmds, 16)
    run.samples = [{"c": "end", "T": "u16", "op": "FromBig", "in": [[1, 2], [255, 0]]}, cmds[-1]]
    run.exhaustive = thorough
    run_fn(run, 'C20', cmds)
    fut.result()
    return vf.finish(run, rule='all four conversions on int8..int64, uint8..uint64, float, double: every value of the 8- and '
                               '16-bit types validated by TLC against Endian.tla, boundary/lane/random values of the wider '
                               'types, and all 2^32 inputs of uint32/int32/float against the byte map emitted by TLC from '
                               'Endian.tla; distinct = (type, operation) pairs')


# ===========================================================================
# C12 / C13 / C15b: object life cycles (Lifetimes.tla)

LIFE_CFG = 'INVARIANT HandleInv\nINVARIANT ShapeInv\nPROPERTY Admitted'


def life_behaviours(run, machine, depth_emit, depth_mc):
    """TLC: model-check the machine to depth_mc (no emission), emit every history of length depth_emit."""
    vf.tlc_generate(run, 'Gen_Life', {"Machine": machine, "Depth": depth_mc, "Emitting": False}, extra_cfg=LIFE_CFG,
                    workers=8, label='mc')
    return vf.tlc_generate(run, 'Gen_Life', {"Machine": machine, "Depth": depth_emit, "Emitting": True}, extra_cfg=LIFE_CFG)


def random_life_ops(rng, machine, n):
    ops = []
    nres = [0]
    for _ in range(n):
        o, p = rng.randrange(3), rng.randrange(3)
        x = rng.choice([1, 2, 3])
        t = rng.random() < 0.15
        if machine == "variant":
            name = rng.choice(["new_empty", "new_ev", "new_a", "new_b", "new_c", "new_i", "new_copy", "new_move", "assign_copy", "assign_move",
                               "assign_a", "assign_b", "assign_c", "assign_i", "assign_ev", "become", "visit", "destroy", "new_a", "assign_b",
                               "new_sub_a", "new_sub_b", "new_sub_empty", "assign_sub_a", "assign_sub_b", "assign_sub_empty",
                               "swap_a", "take_a", "new_t", "assign_t", "assign_t", "assign_own"])
            op = {"op": name, "o": o}
            if name in ("new_a", "new_b", "new_c", "new_t", "assign_a", "assign_b", "assign_c", "assign_t"):
                op.update({"val": x, "throw": t})
            elif name in ("new_i", "assign_i", "new_sub_a", "new_sub_b", "assign_sub_a", "assign_sub_b", "swap_a", "take_a"):
                op["val"] = x
            elif name in ("new_copy", "assign_copy"):
                op.update({"p": p, "throw": t})
            elif name in ("new_move", "assign_move"):
                op.update({"p": p})
            elif name == "become":
                op["idx"] = rng.choice([-2, -1, 0, 1, 2, 3, 7])
        elif machine == "uhandle":
            name = rng.choice(["new_empty", "new_res", "new_res", "new_move", "assign_move", "assign_move", "release", "close", "destroy"])
            op = {"op": name, "o": o}
            if name == "new_res" and nres[0] >= 8:
                name = "close"           # every resource id is used at most once per history
                op = {"op": name, "o": o}
            if name == "new_res":
                op["r"] = nres[0]
                nres[0] += 1
            elif name in ("new_move", "assign_move"):
                op["p"] = p
        else:
            names = ["new_empty", "new_val", "new_rval", "new_copy", "new_move", "assign_copy", "assign_move", "assign_val",
                     "assign_rval", "clear", "take", "destroy", "new_val", "assign_val", "assign_own"]
            if machine == "result_void":
                names = ["new_empty", "new_copy", "new_move", "assign_copy", "assign_move", "clear", "destroy",
                         "new_err", "new_err", "assign_err", "assign_err"]
            elif machine == "result":
                names += ["new_err", "assign_err", "assign_err"]
            else:
                names += ["assign_conv_move", "assign_conv_copy"]
            name = rng.choice(names)
            op = {"op": name, "o": o}
            if name in ("new_val", "assign_val", "new_rval", "assign_rval"):
                op["val"] = x
            elif name in ("assign_conv_move", "assign_conv_copy"):
                op.update({"val": x, "srcempty": rng.random() < 0.3})
            elif name in ("new_err", "assign_err"):
                op["val"] = rng.choice([0, 1, 2])
            elif name in ("new_copy", "assign_copy", "new_move", "assign_move"):
                op["p"] = p
        ops.append(op)
    return ops


def key_obj(prop):
    def fn(ev, why, cmd=None):
        if ev.get("e") in ("UB", "Crash", "Exc", "Timeout", "BadCmd"):
            return abnormal_key(prop, ev, why, cmd)
        return '%s|%s|%s|%s' % (prop, ev.get("e"), ev.get("machine", ""), ','.join(why)), '%s history on %s violates: %s (command %s)' % (
            ev.get("e"), ev.get("machine", ""), ', '.join(why), ev.get("idx"))
    return fn


def run_obj(run, prop, cmds, flavour):
    exe, _ = vf.get_exe(run, flavour)
    trace = vf.exec_commands(run, exe, cmds, prop.lower() + flavour)
    rejected = vf.tlc_validate(run, 'TrObj', 'TrCodec.cfg', trace, {"PROP": prop})
    add_rejections(run, rejected, key_obj(prop), index_cmds(cmds))


def life_cmds(run, machines, thorough, rng):
    cmds = []
    for spec_machine, exec_machines in machines:
        hists = life_behaviours(run, spec_machine, 3, 4 if thorough else 3)
        for em in exec_machines:
            for h in hists:
                cmds.append({"c": "obj", "machine": em, "ops": h})
            for _ in range(8000 if thorough else 400):
                cmds.append({"c": "obj", "machine": em, "ops": random_life_ops(rng, spec_machine, rng.choice([20, 50, 120] if thorough else [20, 40]))})
    return cmds


def check_C12(run):
    thorough = run.tier == 'thorough'
    rng = random.Random(run.seed)
    cmds = life_cmds(run, [("variant", ["variant"])], thorough, rng)
    cmds = with_resets(cmds, 100)
    run.samples = [c for c in cmds if c.get("c") == "obj"][:2]
    run.distinct = set(vf.digest(c) for c in cmds)
    run_obj(run, 'C12', cmds, 'asan')
    return vf.finish(run, rule='every applicable Variant operation history of length 3 over 2 objects (TLC-generated from '
                               'Lifetimes.tla: construct empty/element/converting/copy/move, copy/move/converting/EmptyVariant '
                               'assignment incl. self, Become -2..2, Visit, destroy, throwing element constructors) plus random '
                               'histories of length 20-120 over 3 objects, replayed on nop::Variant<A,B> with lifetime-tracking '
                               'elements under ASan; distinct = distinct histories')


def check_C13(run):
    thorough = run.tier == 'thorough'
    rng = random.Random(run.seed)
    cmds = [{"c": "cmp"}, {"c": "msg"}]
    cmds += life_cmds(run, [("optional", ["optional", "optional_int", "entry"]), ("result", ["result"]),
                            ("result_void", ["result_void"])], thorough, rng)
    cmds = with_resets(cmds, 100)
    run.samples = cmds[1:3] + [c for c in cmds if c.get("machine") == "result"][:1]
    run.distinct = set(vf.digest(c) for c in cmds)
    run_obj(run, 'C13', cmds, 'asan')
    return vf.finish(run, rule='every applicable operation history of length 3 over 2 objects for Optional<Tracked>, '
                               'Optional<int>, Entry<Tracked,5>, Result<E,Tracked> and Status<void> (TLC-generated) plus random histories; all 18 '
                               'Optional comparison operators on all operand states {empty,1,2}^2; GetErrorMessage for codes '
                               '0..19; ASan; distinct = distinct histories')


def check_C15(run):
    thorough = run.tier == 'thorough'
    rng = random.Random(run.seed)
    # (b) ownership histories of UniqueHandle
    cmds_b = with_resets(life_cmds(run, [("uhandle", ["uhandle", "ufile"])], thorough, rng), 100)
    run_obj(run, 'C15', cmds_b, 'asan')
    # (a) handles inside values: out-of-band channel
    exe, types_path = vf.get_exe(run, 'plain')
    types = load_types(types_path)
    groups = []
    n = 0
    gen = vals.Gen(seed=run.seed, nrandom=3 if thorough else 1)
    for tid, S in types.items():
        if not has_kind(S, ("hnd",)):
            continue
        for v in gen.values(S):
            for rs in range(len(REF_SETS) if thorough else 2):
                refs = refs_for(n + rs) + [word(1000 + i, 8) for i in range(140)]
                wk = ["pedantic", "sstream", {"bounded": "pedantic", "limit": BIGCAP}][n % 3]
                w = {"c": "w", "wk": wk, "cap": BIGCAP, "items": [{"tid": tid, "v": v}, {"tid": tid, "v": v}], "refs": refs, "nolog": 1}
                table = {}
                for i, r in enumerate(refs):
                    iv = int.from_bytes(bytes(r), 'little', signed=True)
                    if iv != -1:
                        table[str(iv)] = (i * 3 + 1) % 2000000000
                rk = ["pedantic", "sstream", {"bounded": "buffer", "limit": BIGCAP}, "fstream"][n % 4]
                g = [w, {"c": "r", "rk": rk, "src": "last", "items": [{"tid": tid}, {"tid": tid}], "handles": table, "nolog": 1}]
                # a writer that hands out a reference of its own for empty handles as well (a channel slot per handle)
                g.append({"c": "w", "wk": wk, "cap": BIGCAP, "items": [{"tid": tid, "v": v}], "refs": refs, "hmode": "refs-always", "nolog": 1})
                # corrupted type tags / references: every leading byte position x hostile values
                nb = min(20, max(2, len(json.dumps(v)) // 3))
                for pos in range(nb):
                    for hb in ((0x00, 0x01, 0x7f, 0x80, 0x81, 0x84, 0x87, 0xb7, 0xff) if thorough or pos < 6 else (0x01, 0x87)):
                        g.append({"c": "r", "rk": rk, "src": "last", "mut": [{"op": "set", "at": pos, "val": hb}],
                                  "items": [{"tid": tid}], "handles": table, "nolog": 1, "tag": {"cat": True}})
                # an unresolvable reference: empty table
                g.append({"c": "r", "rk": rk, "src": "last", "items": [{"tid": tid}], "handles": {}, "nolog": 1, "tag": {"cat": True}})
                groups.append(g)
                run.distinct.add((tid, vf.digest(v), rs))
                n += 1
    cmds = with_group_resets(groups, 4)
    run.samples = groups[0][:3] + cmds_b[1:2]
    run_codec(run, 'C15', cmds)
    return vf.finish(run, rule='(a) every handle-bearing pool type (struct member, vector, optional, variant, tuple, table entry) x '
                               'values incl. empty handles x reference sets {-1,0,63..,2^31,2^63-1,negative} returned by the writer: '
                               'push order/multiplicity and encoded references per Wire.tla, reads with corrupted type tags / '
                               'references / unresolvable references per Dec; (b) every applicable UniqueHandle ownership history of '
                               'length 3 (TLC-generated) plus random histories with a counting policy; distinct = distinct cases')


# ===========================================================================
# C07 / C08: tables


def is_vpool(tid):
    return tid.startswith('TV_')


def rep_value(S, rng=None, k=0, big=False):
    """A representative value (vector entries hold exactly as many elements as their array spelling). big: strings of
    130 characters and integers in the widest class, so that entry sizes (also of nested tables) cross 127/128 bytes."""
    kd = S["k"]
    if kd in ("int", "enum"):
        return word(((1 << (8 * S["w"] - 1)) - 1 - k) if big else 200 + k, S["w"])
    if kd == "str":
        return {"cw": S["cw"], "b": [b for i in range(130 if big else 1) for b in word(71 + ((k + i) % 5), S["cw"]) + word(105, S["cw"])][:(130 if big else 2) * S["cw"]]}
    if kd == "vec":
        return {"n": [rep_value(S["e"], rng, k + i, big) for i in range(2)]}
    if kd == "arr":
        return {"n": [rep_value(S["e"], rng, k + i, big) for i in range(S["n"])]}
    if kd in ("struct", "tup", "pair"):
        return {"m": [rep_value(m, rng, k + i, big) for i, m in enumerate(S["m"])]}
    if kd == "table":
        return {"t": [({"id": e["id"], "p": True, "v": rep_value(e["e"], rng, k + i, big)} if e["act"] else {"id": e["id"], "p": False})
                      for i, e in enumerate(S["ents"])]}
    raise ValueError(kd)


def table_patterns(S, v, which):
    """Assignments of empty / non-empty to the active entries of table value v; `which` selects bit patterns."""
    act = [i for i, e in enumerate(S["ents"]) if e["act"]]
    out = []
    for bits in which:
        t = []
        for i, e in enumerate(S["ents"]):
            if i in act and (bits >> act.index(i)) & 1:
                t.append(v["t"][i])
            else:
                t.append({"id": e["id"], "p": False})
        out.append({"t": t})
    return out


def check_C07(run):
    exe, types_path = vf.get_exe(run, 'plain')
    types = load_types(types_path)
    thorough = run.tier == 'thorough'
    rng = random.Random(run.seed)
    fut = start_model_check(run, 'MC_Tables', 'MC_Tables_thorough.cfg' if thorough else 'MC_Tables.cfg', workers=8, timeout=2400)
    vts = [t for t in types if is_vpool(t)]
    placed = [t for t in types if t.startswith('S_TV_')] + [t for t in types if t.startswith('vec<TV_')]
    groups = []
    n = 0
    rks = ["pedantic", "sstream", "buffer", {"bounded": "pedantic", "limit": BIGCAP}, "fstream"]
    sentinel = {"tid": "u16", "v": [0xCD, 0xAB]}
    fulls = {t: rep_value(types[t], rng, 3) for t in vts}
    for wt in vts:
        S = types[wt]
        full_small = rep_value(S, rng, n % 7)
        full_big = rep_value(S, rng, n % 5, big=True)
        nact = sum(1 for e in S["ents"] if e["act"])
        allbits = list(range(1 << nact))
        for ri, rt in enumerate(vts):
            # every fifth reader gets the writer's large value (entry sizes and nested table sizes above 127 bytes)
            full = full_big if ri % 5 == 2 else full_small
            if thorough:
                bits = allbits
            else:
                # all-present plus one rotating pattern per ordered pair; every pattern of W is used against some R
                bits = sorted(set([(1 << nact) - 1, allbits[n % len(allbits)]]))
            for v in table_patterns(S, full, bits):
                w = {"c": "w", "wk": "pedantic", "cap": 4096, "items": [{"tid": wt, "v": v}, sentinel], "nolog": 1}
                dst = {"tid": rt}
                if n % 3:
                    # the reader reuses a destination whose entries are all non-empty (3 is coprime to the number of
                    # patterns, so every pattern - the all-empty one included - meets a reused destination)
                    dst["prior"] = {"kind": "value", "v": fulls[rt]}
                r = {"c": "r", "rk": rks[n % len(rks)], "src": "last", "items": [dst, {"tid": "u16"}], "nolog": 1}
                groups.append([w, r])
                n += 1
        run.distinct.add(wt)
    # tables nested in structures and vectors
    for kind in ("S_TV_", "vec<TV_"):
        ps = [t for t in placed if t.startswith(kind)]
        for wt in ps:
            S = types[wt]
            for rt in ps:
                if kind == "S_TV_":
                    tv = rep_value(S["m"][1], rng, 1)
                    v = {"m": [[7], tv, [1, 2]]}
                else:
                    tv = rep_value(S["e"], rng, 2)
                    v = {"n": [tv, table_patterns(S["e"], tv, [1])[0], tv]}
                w = {"c": "w", "wk": "pedantic", "cap": 4096, "items": [{"tid": wt, "v": v}, sentinel], "nolog": 1}
                r = {"c": "r", "rk": rks[n % len(rks)], "src": "last", "items": [{"tid": rt}, {"tid": "u16"}], "nolog": 1}
                groups.append([w, r])
                n += 1
                if kind == "S_TV_":
                    # the same structure object receives a second record whose table has no non-empty entry
                    Sr = types[rt]
                    v0 = {"m": [[9], table_patterns(S["m"][1], tv, [0])[0], [3, 4]]}
                    pv = {"m": [[7], rep_value(Sr["m"][1], rng, 4), [1, 2]]}
                    w0 = {"c": "w", "wk": "pedantic", "cap": 4096, "items": [{"tid": wt, "v": v0}, sentinel], "nolog": 1}
                    r0 = {"c": "r", "rk": rks[n % len(rks)], "src": "last",
                          "items": [{"tid": rt, "prior": {"kind": "value", "v": pv}}, {"tid": "u16"}], "nolog": 1}
                    groups.append([w0, r0])
                    n += 1
    cmds = with_group_resets(groups, 100)
    run.samples = groups[0] + groups[len(groups) // 2]
    run.distinct = set(vf.digest(g) for g in groups)
    run.exhaustive = thorough
    run_codec(run, 'C07', cmds)
    fut.result()
    return vf.finish(run, rule='every ordered pair (writer, reader) of the %d table definitions reachable within 4 evolution '
                               'steps in Tables.tla (TLC-emitted version pool) x assignments of empty/non-empty to the writer\'s '
                               'entries (all-present + rotating pattern; all 2^k patterns in the thorough tier), followed by a '
                               'sentinel value, plus tables nested in structures and vectors; distinct = distinct (pair, value)'
                               % len(vts))


def check_C08(run):
    exe, types_path = vf.get_exe(run, 'plain')
    types = load_types(types_path)
    thorough = run.tier == 'thorough'

    def ok_kind(S):
        return all(x["k"] in ("int", "enum", "str", "vec", "arr", "struct", "tup", "pair", "table", "char", "bool") for x in walk(S))
    tids = [t for t, S in types.items() if S["k"] == "table" and ok_kind(S) and "hash" in S]
    vp = [t for t in tids if is_vpool(t)]
    other = [t for t in tids if not is_vpool(t)]
    rng = random.Random(run.seed)
    chosen = other + (vp if thorough else vp[::3])
    tids_path = os.path.join(run.work, 'tids.json')
    with open(tids_path, 'w') as f:
        json.dump(chosen, f)
    os.environ["TYPES"] = types_path
    os.environ["TIDS"] = tids_path
    muts = vf.tlc_generate(run, 'Gen_TableMut', {}, timeout=900)
    rks = ["pedantic", "sstream", "buffer", {"bounded": "pedantic", "limit": BIGCAP}, "fstream", {"bounded": "sstream", "limit": BIGCAP}]
    cmds = []
    for i, m in enumerate(muts):
        for rk in (rks if thorough else [rks[i % len(rks)]]):      # thorough: every mutant through every reader kind
            cmds.append({"c": "r", "rk": rk, "src": {"b": m["b"]}, "items": [{"tid": m["tid"]}], "nolog": 1,
                         "tag": {"cat": True, "label": m["label"]}})
        run.distinct.add((m["tid"], m["label"]))
    cmds = with_resets(cmds, 100)
    run.samples = cmds[1:4]
    run_codec(run, 'C08', cmds)
    return vf.finish(run, rule='TLC-generated table encodings (Gen_TableMut.tla) for %d table types x every assignment of '
                               'empty/non-empty entries x {valid, reversed order, wrong hashes (+-1, 0, all ones, halves / single bytes cleared, top bit, reversed), count +-1, unknown entries, duplicate '
                               'entry, padded entry, declared size too large/small/zero/huge, corrupt value, value truncated inside '
                               'its frame}, read through pedantic/stream/buffer/bounded readers and judged by Dec; distinct = '
                               'distinct (type, mutation)' % len(chosen))


# ===========================================================================
# C09 fungibility


def key_fung(ev, why, cmd=None):
    if ev.get("e") in ("UB", "Crash", "Exc", "Timeout", "BadCmd"):
        return abnormal_key('C09', ev, why, cmd)
    if ev.get("e") == "FUNG":
        return 'C09|FUNG|' + ','.join(why[:6]), 'IsFungible matrix violates: %s' % ', '.join(why[:12])
    return 'C09|X|%s|%s|%s' % (ev.get("a"), ev.get("b"), ','.join(why)), 'write as %s / read as %s violates: %s (command %s)' % (
        ev.get("a"), ev.get("b"), ', '.join(why), ev.get("idx"))


def check_C09(run):
    exe, types_path = vf.get_exe(run, 'plain')
    thorough = run.tier == 'thorough'
    ftypes_path = os.path.join(os.path.dirname(types_path), 'fung_types.json')
    ftypes = load_types(ftypes_path)
    tids = list(ftypes)
    # first pass: the compile-time matrix
    t1 = vf.exec_commands(run, exe, [{"c": "fung"}], 'c09m')
    fung = json.loads(open(t1).readline())
    if fung.get("tids") != tids:
        raise vf.MachineryError('fung type list of the executor differs from fung_types.json')
    gen = vals.Gen(seed=run.seed, big=False, nrandom=8 if thorough else 1)
    cmds = [{"c": "fung"}]
    npairs = 0
    for i, a in enumerate(tids):
        va = gen.values(ftypes[a])
        # also counts below / at / above small capacities for sequences
        for j, b in enumerate(tids):
            if not fung["value"][i][j]:
                continue
            npairs += 1
            sel = va if (thorough or i == j or has_kind(ftypes[a], ("lbuf",)) or has_kind(ftypes[b], ("lbuf",))) else va[:8]
            for v in sel:
                if len(json.dumps(v)) > 4000:
                    continue
                cmds.append({"c": "cross", "a": i, "b": j, "v": v})
            run.distinct.add((a, b))
    cmds = with_resets(cmds, 50)
    run.samples = cmds[2:5]
    trace = vf.exec_commands(run, exe, cmds, 'c09')
    rejected = vf.tlc_validate(run, 'TrFung', 'TrCodec.cfg', trace, {"PROP": "C09", "TYPES": ftypes_path})
    add_rejections(run, rejected, key_fung, index_cmds(cmds))
    fut = start_model_check(run, 'MC_Wire', 'MC_Wire.cfg', workers=8)
    fut.result()
    run.coverage_extra["type_pairs"] = len(tids) ** 2
    run.coverage_extra["fungible_pairs_cross_decoded"] = npairs
    return vf.finish(run, rule='IsFungible evaluated by the compiler on all %d^2 ordered pairs of the type grammar (scalars, strings, '
                               'vector/std::array/C array, tuples, pairs, maps, Optional/Result/Variant, structures, logical buffers '
                               'with every integral size-member type, value wrappers, tables): reflexive, symmetric, documented '
                               'pairs true, Protocol admission; every pair reported fungible is cross-decoded (write A, read B, '
                               're-encode B) on boundary values of A; distinct = distinct fungible pairs' % len(tids))


# ===========================================================================
# C14 RPC

def _b(sname):
    return [ord(c) for c in sname]


def rpc_ifaces():
    i32 = {"k": "int", "w": 4, "s": True}
    u8 = {"k": "int", "w": 1, "s": False}
    u16 = {"k": "int", "w": 2, "s": False}
    u32 = {"k": "int", "w": 4, "s": False}
    u64 = {"k": "int", "w": 8, "s": False}
    i8 = {"k": "int", "w": 1, "s": True}
    i16 = {"k": "int", "w": 2, "s": True}
    i64 = {"k": "int", "w": 8, "s": True}
    s8 = {"k": "str", "cw": 1}
    vu8 = {"k": "vec", "e": u8}
    point = {"k": "struct", "m": [i32, s8]}
    ios = {"k": "var", "m": [i32, s8]}
    diverr = {"k": "enum", "w": 1, "s": False}
    def tup(*m):
        return {"k": "tup", "m": list(m)}
    def meth(label, args, ret, bound=True, calls=None, sel=None, cargs=None):
        d = {"name": _b(label), "label": label, "args": args, "ret": ret, "bound": bound, "calls": calls or [label]}
        if cargs:
            d["cargs"] = cargs      # call name -> the caller's (conforming) argument types
        if sel is not None:
            d["sel"] = sel
        return d
    return {
        "calc": {"name": _b("io.verif.Calc"), "namestr": "io.verif.Calc", "width": 8, "methods": [
            meth("Sum", tup(i32, i32), i32, calls=["Sum", "SumU16U8", "SumI8I16"],
                 cargs={"SumU16U8": tup(u16, u8), "SumI8I16": tup(i8, i16)}),
            meth("Concat", tup(s8, s8), s8),
            meth("Echo", tup(vu8), vu8, calls=["Echo", "EchoArr"]),
            meth("Stats", tup(point, {"k": "opt", "e": i32}), point), meth("Choose", tup(ios), ios),
            meth("Div", tup(i32, i32), {"k": "res", "err": diverr, "e": i32}),
            meth("Unbound", tup(i32), i32, bound=False),
            meth("Seek", tup(i64), i64, calls=["Seek", "SeekU32", "SeekU8", "SeekI16"],
                 cargs={"SeekU32": tup(u32), "SeekU8": tup(u8), "SeekI16": tup(i16)}),
            meth("Reserve", tup(u64), u64, calls=["Reserve", "ReserveU16", "ReserveI32"],
                 cargs={"ReserveU16": tup(u16), "ReserveI32": tup(i32)}),
            meth("Scale", tup(i32, i64), i64, calls=["Scale", "ScaleU8U32", "ScaleI16I8"],
                 cargs={"ScaleU8U32": tup(u8, u32), "ScaleI16I8": tup(i16, i8)}),
            meth("Notify", tup(s8, {"k": "vec", "e": u32}), {"k": "void"}, bound=False)]},
        # the same interface as served by the two-thread pipe transport (fewer handlers are bound there)
        "calcpipe": {"name": _b("io.verif.Calc"), "namestr": "io.verif.Calc", "width": 8, "methods": [
            meth("Sum", tup(i32, i32), i32), meth("Concat", tup(s8, s8), s8),
            meth("Echo", tup(vu8), vu8, calls=["Echo", "EchoArr"]),
            meth("Stats", tup(point, {"k": "opt", "e": i32}), point, bound=False), meth("Choose", tup(ios), ios, bound=False),
            meth("Div", tup(i32, i32), {"k": "res", "err": diverr, "e": i32}),
            meth("Unbound", tup(i32), i32, bound=False),
            meth("Seek", tup(i64), i64, calls=["Seek", "SeekU32"], cargs={"SeekU32": tup(u32)})]},
        "small": {"name": _b("io.verif.Small"), "namestr": "io.verif.Small", "width": 4, "methods": [
            meth("Inc", tup(u8), u8), meth("Name", tup(), s8),
            meth("Fixed", tup(u16, u16), u16, sel=word(42, 4)), meth("Other", tup(u8), u8, bound=False)]},
    }


def rpc_pipe_cmds(rng, count, nrandom=1):
    """Two threads over real pipes (FdWriter / FdReader): call sequences on one connection, ended by a request the
    dispatcher refuses (unbound method, raw garbage) or by the caller closing."""
    P = rpc_ifaces()["calcpipe"]
    gen = vals.Gen(seed=rng.randrange(1 << 30), nrandom=nrandom)
    pvals = {}
    for m in P["methods"]:
        for cn in m["calls"]:
            pvals[cn] = gen.values(m.get("cargs", {}).get(cn, m["args"]))
            if cn == "EchoArr":
                pvals[cn] = [{"m": [{"n": [[(5 * i + j) % 256] for j in range(3)]}]} for i in range(3)]
    good_names = [cn for m in P["methods"] if m["bound"] for cn in m["calls"]]
    bad_names = [cn for m in P["methods"] if not m["bound"] and m["label"] != "Choose" for cn in m["calls"]]
    out = []
    for k in range(count):
        seq = []
        for _ in range(rng.randrange(1, 7)):
            cn = rng.choice(good_names)
            seq.append({"m": cn, "args": rng.choice(pvals[cn])})
        end = k % 3
        if end == 1:
            cn = rng.choice(bad_names)
            seq.append({"m": cn, "args": rng.choice(pvals[cn])})
        elif end == 2:
            seq.append({"m": "Raw", "raw": rng.choice([[0x83, 1, 2, 3, 4, 5, 6, 7, 8, 0xba, 0], [0xff], [0x84, 1], [0x00, 0xba, 2, 1, 2]])})
        out.append({"c": "rpc", "iface": "calcpipe", "transport": "pipe", "calls": seq})
    return out


def key_rpc19(ev, why, cmd=None):
    if ev.get("e") != "RPC":
        return abnormal_key('C19', ev, why, cmd)
    return 'C19|RPC|pipe|%s' % ','.join(why), 'caller and dispatcher threads over pipes violate: %s (command %s)' % (', '.join(why), ev.get("idx"))


def key_rpc(ev, why, cmd=None):
    if ev.get("e") != "RPC":
        return abnormal_key('RPC', ev, why, cmd)
    return 'RPC|%s|%s' % (ev.get("iface"), ','.join(why)), 'call sequence on interface %s violates: %s (command %s)' % (
        ev.get("iface"), ', '.join(why), ev.get("idx"))


def check_C14(run):
    exe, types_path = vf.get_exe(run, 'plain')
    thorough = run.tier == 'thorough'
    rng = random.Random(run.seed)
    fut = start_model_check(run, 'MC_Rpc', 'MC_Rpc.cfg', workers=4)
    ifaces = rpc_ifaces()
    ipath = os.path.join(run.work, 'ifaces.json')
    with open(ipath, 'w') as f:
        json.dump(ifaces, f)
    gen = vals.Gen(seed=run.seed, nrandom=12 if thorough else 1)
    cmds = []
    cmds += rpc_pipe_cmds(rng, 300 if thorough else 60, nrandom=12 if thorough else 1)
    for iname, I in ifaces.items():
        if iname == "calcpipe":
            continue
        argvals = {}
        for m in I["methods"]:
            for cn in m["calls"]:
                vs = gen.values(m.get("cargs", {}).get(cn, m["args"]))
                if cn == "EchoArr":
                    vs = [{"m": [{"n": [[(7 * i + j) % 256] for j in range(3)]}]} for i in range(4)]
                argvals[cn] = vs
        if "Concat" in argvals:
            # the handler of Concat, given a first argument "nest:...", has the same method dispatched once more on this
            # thread (another connection) while it is running: its own arguments must come through untouched
            sb = lambda txt: {"cw": 1, "b": [ord(ch) for ch in txt]}
            argvals["Concat"] += [{"m": [sb("nest:outer-key-%d" % j), sb("outer-value-" + "v" * (7 * j))]} for j in range(4)]
        names = list(argvals)
        # (1) every method with every generated argument tuple, in sequences of 1..4 calls on one connection
        pool = [(cn, v) for cn in names for v in argvals[cn]]
        rng.shuffle(pool)
        i = 0
        while i < len(pool):
            ln = 1 + (i % 4)
            cmds.append({"c": "rpc", "iface": iname, "calls": [{"m": cn, "args": v} for cn, v in pool[i:i + ln]]})
            i += ln
        # (2) truncations and single-byte corruptions of requests, followed by a good call on the same connection
        for cn in names:
            for v in argvals[cn][:6 if thorough else 2]:
                good = {"m": names[0], "args": argvals[names[0]][0]}
                for k in range(0, 26 if thorough else 14):
                    cmds.append({"c": "rpc", "iface": iname, "calls": [{"m": cn, "args": v, "mut": [{"op": "trunc", "k": k}]}, good]})
                for pos in range(0, 24 if thorough else 14):
                    for hb in ((0x00, 0x01, 0x7f, 0x80, 0x81, 0x82, 0x83, 0x84, 0x87, 0xb9, 0xba, 0xbc, 0xbd, 0xbe, 0xc0, 0xff) if thorough
                               else (0x00, 0x7f, 0x80, 0x83, 0xba, 0xbd, 0xff) if pos < 10 else (0xff,)):
                        cmds.append({"c": "rpc", "iface": iname,
                                     "calls": [{"m": cn, "args": v, "mut": [{"op": "set", "at": pos, "val": hb}]}, good]})
                # two requests delivered back to back: the dispatcher must consume exactly its own
                cmds.append({"c": "rpc", "iface": iname, "calls": [{"m": cn, "args": v, "mut": [{"op": "append", "b": [1, 2, 3]}]}]})
        # (2b) something fails underneath at any primitive of any of the four pipe ends: success must still mean a
        # whole reply and the handler's return value
        for cn in names:
            m = [x for x in I["methods"] if cn in x["calls"]][0]
            if not m["bound"]:
                continue
            v = argvals[cn][len(cn) % len(argvals[cn])]
            for on in ("reqw", "repr", "reqr", "repw"):
                for k in range(1, 13 if thorough else 9):
                    cmds.append({"c": "rpc", "iface": iname, "calls": [{"m": cn, "args": v, "fault": {"on": on, "k": k, "e": 14 if k % 2 else 16}}]})
        # (3) raw requests: arbitrary selectors (unbound, wrong class, truncated)
        for _ in range(60 if thorough else 20):
            sel = rng.choice([[0], [42], [0x83] + [rng.randrange(256) for _ in range(8)], [0x82] + [rng.randrange(256) for _ in range(4)],
                              [0x84, 1], [0x81, 42, 0], [0xba], [0x83, 1, 2]])
            cmds.append({"c": "rpc", "iface": iname, "calls": [{"m": "Raw", "raw": sel + [0xba, 2, 1, 2]}]})
    cmds = with_resets(cmds, 40)
    run.samples = [c for c in cmds if c.get("c") == "rpc"][:3]
    run.distinct = set(vf.digest(c) for c in cmds)
    trace = vf.exec_commands(run, exe, cmds, 'c14')
    rejected = vf.tlc_validate(run, 'TrRpc', 'TrCodec.cfg', trace, {"PROP": "C14", "IFACES": ipath})
    add_rejections(run, rejected, key_rpc, index_cmds(cmds))
    fut.result()
    return vf.finish(run, rule='two interfaces (64-bit and 32-bit selectors, NOP_METHOD and NOP_METHOD_SEL, function/lambda and '
                               'method bindings, partial bindings, scalars/strings/containers/structures/variants/Result returns, a '
                               'fungible argument substitution) x call sequences of 1-4 calls with boundary arguments x every '
                               'truncation and single-byte corruption of a request x raw requests with unbound/ill-formed '
                               'selectors, end to end over a loopback transport; call sequences between two threads over real pipes '
                               '(FdWriter / FdReader) ended by a refused request; distinct = distinct call sequences')


# ===========================================================================
# C19 threads


def key_tl(ev, why, cmd=None):
    if ev.get("e") != "TL":
        return abnormal_key('C19', ev, why, cmd)
    return 'C19|TL|%s|%s' % (ev.get("mode"), ','.join(why)), '%s run of %s threads violates: %s (command %s)' % (
        ev.get("mode"), ev.get("threads"), ', '.join(why), ev.get("idx"))


def _rpc_step(rng):
    s = lambda txt: {"cw": 1, "b": [ord(c) for c in txt]}
    if rng.random() < 0.4:
        # the interface whose handlers are bound as member functions of a service object (another dispatch path)
        calls = []
        for _ in range(rng.randrange(1, 5)):
            m = rng.choice(["Inc", "Fixed", "Name", "Fixed"])
            if m == "Inc":
                a = {"m": [word(rng.randrange(256), 1)]}
            elif m == "Fixed":
                a = {"m": [word(rng.randrange(65536), 2), word(rng.randrange(65536), 2)]}
            else:
                a = {"m": []}
            calls.append({"m": m, "args": a})
        return {"op": "rpc", "slot": 0, "val": 0, "iface": "small", "calls": calls}
    calls = []
    for _ in range(rng.randrange(1, 4)):
        m = rng.choice(["Sum", "Concat", "Echo", "Div"])
        if m == "Sum":
            a = {"m": [word(rng.randrange(-1000, 1000), 4), word(rng.randrange(-1000, 1000), 4)]}
        elif m == "Concat":
            a = {"m": [s("thread-%d-" % rng.randrange(100)), s("x" * rng.randrange(0, 40))]}
        elif m == "Echo":
            a = {"m": [{"n": [[rng.randrange(256)] for _ in range(rng.randrange(0, 9))]}]}
        else:
            a = {"m": [word(rng.randrange(-50, 50), 4), word(rng.randrange(-3, 4), 4)]}
        calls.append({"m": m, "args": a})
    return {"op": "rpc", "slot": 0, "val": 0, "iface": "calc", "calls": calls}


def _io_step(rng, pad):
    """A call sequence on a memory-backed reader / writer owned by the thread; `pad` is the thread's own padding value."""
    side = rng.choice(["w", "w", "r"])
    seq = random_sequences(rng, side, 1, rng.randrange(2, 7))[0]
    if side == "w":
        # unbounded sinks asked to skip ~2^64 bytes never finish; block sizes stay small inside threads
        seq = [c for c in seq if not (c["op"] == "skipw" and c["n"] < 0)]
    ops = io_ops(seq, side, rng.randrange(1000))
    for o in ops:
        if "pad" in o:
            o["pad"] = pad
    kind = rng.choice(["sstream", "pedantic", "lstream"] if side == "w" else ["sstream", "pedantic", "buffer"])
    bounded = rng.random() < 0.5
    if not bounded:
        ops = [o for o in ops if o["op"] not in ("pad", "padw")]
    cmd = {"c": "io", "side": side, "kind": kind, "bounded": bounded, "direct": True, "limit": rng.randrange(0, 40) if bounded else 0,
           "ops": ops}
    if side == "r":
        cmd["src"] = [(pad + 3 * i) % 256 for i in range(rng.randrange(0, 24))]
    else:
        cmd["cap"] = rng.randrange(0, 48)
    return {"op": "io", "slot": 0, "val": 0, "cmd": cmd}


def random_tl_program(rng, n):
    prog = []
    pad = rng.randrange(1, 256)
    for _ in range(n):
        op = rng.choice(["init", "initialize", "set", "clear", "codec", "codec", "rpc", "io", "io"])
        if op == "rpc":
            prog.append(_rpc_step(rng))
        elif op == "io":
            prog.append(_io_step(rng, pad))
        else:
            prog.append({"op": op, "slot": rng.randrange(9), "val": rng.randrange(1, 1000)})
    return prog


def check_C19(run):
    thorough = run.tier == 'thorough'
    rng = random.Random(run.seed)
    # (M) all interleavings of 2 (quick) / 3 (thorough) threads; emitted schedules are replayed in lock step
    scheds2 = vf.tlc_generate(run, 'MC_Threads', {"NThreads": 2, "Emitting": True},
                              extra_cfg='INVARIANT ScheduleIndependent\nPROPERTY Isolation', timeout=900)
    scheds3 = []
    if thorough:
        scheds3 = vf.tlc_generate(run, 'MC_Threads', {"NThreads": 3, "Emitting": True},
                                  extra_cfg='INVARIANT ScheduleIndependent\nPROPERTY Isolation', timeout=1800, workers=1)
        rng.shuffle(scheds3)
        scheds3 = scheds3[:4000]
    else:
        vf.tlc_generate(run, 'MC_Threads', {"NThreads": 3, "Emitting": False},
                        extra_cfg='INVARIANT ScheduleIndependent\nPROPERTY Isolation', timeout=900, workers=8, label='mc3')
    rng.shuffle(scheds2)
    cmds = []
    # Threads.tla treats slots uniformly, so a behaviour with its slots renamed injectively is again a behaviour: each
    # schedule is replayed on a rotating choice of three of the nine real slots (index / default / type slots over int
    # and long, and the slots whose value type owns heap storage: string, vector, unique_ptr)
    renamings = [(0, 1, 2), (6, 7, 8), (3, 4, 5), (6, 1, 8), (0, 7, 2), (8, 6, 7), (5, 6, 0), (7, 3, 6)]

    def renamed(sc, i):
        m = renamings[i % len(renamings)]
        return [dict(st, slot=m[st["slot"]]) for st in sc]
    for i, sc in enumerate(scheds2[:(3000 if thorough else 600)]):
        cmds.append({"c": "tl", "mode": "lockstep", "threads": 2, "schedule": renamed(sc, i)})
    for i, sc in enumerate(scheds3):
        cmds.append({"c": "tl", "mode": "lockstep", "threads": 3, "schedule": renamed(sc, i)})
    # free-running threads: ThreadLocal operations on shared slot types and codec round trips on own objects
    for _ in range(150 if thorough else 40):
        n = rng.choice([4, 8, 16])
        cmds.append({"c": "tl", "mode": "free", "threads": n,
                     "programs": [random_tl_program(rng, rng.choice([30, 80] if thorough else [20, 40])) for _ in range(n)]})
    cmds = with_resets(cmds, 60)
    run.samples = [c for c in cmds if c.get("mode") == "lockstep"][:1] + [c for c in cmds if c.get("mode") == "free"][:1]
    run.distinct = set(vf.digest(c) for c in cmds)
    exe, types_path = vf.get_exe(run, 'tsan')
    ipath = os.path.join(run.work, 'ifaces.json')
    with open(ipath, 'w') as f:
        json.dump(rpc_ifaces(), f)
    trace = vf.exec_commands(run, exe, cmds, 'c19', per_cmd_timeout=60,
                             env={"TSAN_OPTIONS": "halt_on_error=1 exitcode=66 report_signal_unsafe=0"})
    rejected = vf.tlc_validate(run, 'TrThreads', 'TrCodec.cfg', trace, {"PROP": "C19", "TYPES": types_path, "IFACES": ipath})
    add_rejections(run, rejected, key_tl, index_cmds(cmds))
    # the one piece of state every reader / writer shares with the rest of the process is the descriptor table: an
    # FdReader / FdWriter must close only the descriptor it owns, exactly once (otherwise it closes a number that another
    # thread's object may have been given in the meantime). Ownership histories from the UniqueHandle machine of
    # Lifetimes.tla, the descriptor table as the observation (TrObj.tla FFold).
    fcmds = with_resets(life_cmds(run, [("uhandle", ["fdreader", "fdwriter"])], thorough, rng), 100)
    run_obj(run, 'C19', fcmds, 'plain')
    # caller and dispatcher as two threads over real pipes, under ThreadSanitizer
    pcmds = [c for c in rpc_pipe_cmds(rng, 200 if thorough else 40)]
    ptrace = vf.exec_commands(run, exe, with_resets(pcmds, 40), 'c19pipe', per_cmd_timeout=60,
                              env={"TSAN_OPTIONS": "halt_on_error=1 exitcode=66 report_signal_unsafe=0"})
    rejected = vf.tlc_validate(run, 'TrRpc', 'TrCodec.cfg', ptrace, {"PROP": "C19", "IFACES": ipath})
    add_rejections(run, rejected, key_rpc19, index_cmds(with_resets(pcmds, 40)))
    return vf.finish(run, rule='TLC-enumerated interleavings (MC_Threads: 2 threads exhaustively, 3 threads in the thorough tier) of '
                               'ThreadLocal Initialize/Get/Set/Clear programs replayed by real threads in lock step, plus 4-16 '
                               'free-running threads doing ThreadLocal operations on shared slot types, serializer round trips, RPC '
                               'connections and reader/writer call sequences (thread-specific padding values) on their own objects; '
                               'caller / dispatcher thread pairs over real pipes; descriptor ownership histories of FdReader / '
                               'FdWriter (no descriptor closed twice); ThreadSanitizer build: a report is a Race event; distinct = distinct commands')


def replay(run, path):
    with open(path) as f:
        rp = json.load(f)
    print(json.dumps(rp, indent=1)[:4000])
    return 0
