"""Content-addressed build of the executor against /repo's current working tree."""
import fcntl
import glob
import hashlib
import json
import os
import shutil
import subprocess
import sys
import time
from concurrent.futures import ThreadPoolExecutor

VERIF = os.path.dirname(os.path.dirname(os.path.abspath(__file__)))
REPO = os.environ.get('VERIF_REPO', '/repo')
CACHE = os.path.join(VERIF, '.cache')
HARNESS = os.path.join(VERIF, 'harness')

FLAVOURS = {
    'plain': ['-O1', '-g0'],
    'asan': ['-O1', '-g0', '-fsanitize=address,undefined', '-fno-sanitize-recover=undefined', '-fno-sanitize=nonnull-attribute', '-fno-omit-frame-pointer',
             '-DVF_SAN=1'],
    'tsan': ['-O1', '-g0', '-fsanitize=thread', '-DVF_SAN=1', '-DVF_TSAN=1'],
    # line coverage of /repo/include under the stimuli of the checks (bin/coverage; never used for evidence)
    'cov': ['-O0', '-g0', '--coverage', '-fno-inline', '-fno-elide-constructors'],
}
NSHARDS = 24


def _hash_tree(h, root, pattern='**/*'):
    for p in sorted(glob.glob(os.path.join(root, pattern), recursive=True)):
        if os.path.isfile(p):
            h.update(p[len(root):].encode())
            with open(p, 'rb') as f:
                h.update(f.read())


def build_key(flavour, extra_defs=()):
    h = hashlib.sha256()
    _hash_tree(h, os.path.join(REPO, 'include'))
    _hash_tree(h, HARNESS, '*')
    for p in ('pool.py', 'pooldef.py', 'build.py', 'namesdef.py', 'fungdef.py', 'ctdef.py'):
        with open(os.path.join(VERIF, 'lib', p), 'rb') as f:
            h.update(f.read())
    tj = os.path.join(VERIF, 'pool', 'tables.json')
    if os.path.exists(tj):
        with open(tj, 'rb') as f:
            h.update(f.read())
    h.update(flavour.encode())
    h.update(' '.join(extra_defs).encode())
    return h.hexdigest()[:20]


def _prune(keep_dir):
    root = os.path.join(CACHE, 'build')
    dirs = [d for d in glob.glob(os.path.join(root, '*')) if os.path.isdir(d)]
    dirs.sort(key=lambda d: os.path.getmtime(d))
    by_flavour = {}
    for d in dirs:
        fl = os.path.basename(d).split('-')[0]
        by_flavour.setdefault(fl, []).append(d)
    now = time.time()
    for fl, ds in by_flavour.items():
        for d in ds[:-4]:
            # never remove a build another check may be using (concurrent checks share the cache)
            if d != keep_dir and now - os.path.getmtime(d) > 3600:
                shutil.rmtree(d, ignore_errors=True)


def build(flavour='plain', extra_defs=(), verbose=False, include_dir=None):
    """Returns (path to nopexec, build_dir, seconds, cached). Raises BuildError on compiler failure."""
    sys.path.insert(0, os.path.join(VERIF, 'lib'))
    import pool
    import pooldef
    t0 = time.time()
    key = build_key(flavour, extra_defs)
    root = os.path.join(CACHE, 'build')
    os.makedirs(root, exist_ok=True)
    bdir = os.path.join(root, '%s-%s' % (flavour, key))
    exe = os.path.join(bdir, 'nopexec')
    lock_path = os.path.join(root, '%s-%s.lock' % (flavour, key))
    with open(lock_path, 'w') as lock:
        fcntl.flock(lock, fcntl.LOCK_EX)
        if os.path.exists(exe) and os.path.exists(os.path.join(bdir, 'OK')):
            os.utime(bdir, None)
            return exe, bdir, time.time() - t0, True
        shutil.rmtree(bdir, ignore_errors=True)
        os.makedirs(bdir)
        types = pooldef.build_pool()
        files = pool.gen_cpp(types, NSHARDS)
        for name, text in files.items():
            with open(os.path.join(bdir, name), 'w') as f:
                f.write(text)
        import namesdef
        import fungdef
        import ctdef
        with open(os.path.join(bdir, 'ct_gen.cpp'), 'w') as f:
            f.write(ctdef.gen_cpp())
        ftypes = fungdef.fung_types()
        with open(os.path.join(bdir, 'fung_gen.cpp'), 'w') as f:
            f.write(fungdef.gen_cpp(ftypes))
        with open(os.path.join(bdir, 'fung_types.json'), 'w') as f:
            json.dump({t.tid: t.schema for t in ftypes}, f)
        with open(os.path.join(bdir, 'names_gen.cpp'), 'w') as f:
            f.write(namesdef.gen_cpp())
        with open(os.path.join(bdir, 'types.json'), 'w') as f:
            json.dump(pool.types_json(types), f)
        inc = include_dir or os.path.join(REPO, 'include')
        cxx = os.environ.get('VERIF_CXX', 'g++')
        flags = ['-std=c++14', '-I' + inc, '-I' + HARNESS, '-I' + bdir, '-pthread', '-w'] + FLAVOURS[flavour] + list(extra_defs)
        srcs = sorted(glob.glob(os.path.join(HARNESS, '*.cpp')) + glob.glob(os.path.join(HARNESS, '*.cc')) +
                      glob.glob(os.path.join(bdir, 'pool_*.cpp')) + [os.path.join(bdir, 'names_gen.cpp'), os.path.join(bdir, 'fung_gen.cpp'), os.path.join(bdir, 'ct_gen.cpp')])
        objs = []

        def compile_one(src):
            obj = os.path.join(bdir, os.path.basename(src) + '.o')
            r = subprocess.run([cxx] + flags + ['-c', src, '-o', obj], capture_output=True, text=True)
            return src, obj, r

        failed = []
        with ThreadPoolExecutor(max_workers=16) as ex:
            for src, obj, r in ex.map(compile_one, srcs):
                objs.append(obj)
                if r.returncode != 0:
                    failed.append((src, r.stderr))
        if failed:
            msg = '\n'.join('%s:\n%s' % (s, e[:6000]) for s, e in failed[:3])
            raise BuildError(msg)
        r = subprocess.run([cxx] + flags + objs + ['-o', exe], capture_output=True, text=True)
        if r.returncode != 0:
            raise BuildError(r.stderr[:6000])
        if flavour != 'cov':
            for o in objs:
                os.unlink(o)
        open(os.path.join(bdir, 'OK'), 'w').close()
        _prune(bdir)
    return exe, bdir, time.time() - t0, False


class BuildError(Exception):
    pass


if __name__ == '__main__':
    fl = sys.argv[1] if len(sys.argv) > 1 else 'plain'
    try:
        exe, bdir, secs, cached = build(fl)
        print(exe, '%.1fs' % secs, 'cached' if cached else 'built')
    except BuildError as e:
        print(str(e))
        sys.exit(2)
