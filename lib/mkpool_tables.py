#!/usr/bin/env python3
"""Re-derives pool/tables.json: the table definitions reachable within 4 evolution steps in Tables.tla,
emitted by TLC (MC_Tables with Emitting = TRUE)."""
import json
import os
import subprocess
import sys
import tempfile

VERIF = os.path.dirname(os.path.dirname(os.path.abspath(__file__)))


def main():
    steps = int(sys.argv[1]) if len(sys.argv) > 1 else 4
    with tempfile.TemporaryDirectory() as tmp:
        cfg = os.path.join(tmp, 'emit.cfg')
        with open(cfg, 'w') as f:
            f.write('SPECIFICATION Spec\nCONSTANTS MaxSteps = %d Emitting = TRUE\nINVARIANT Emit\nCHECK_DEADLOCK FALSE\n' % steps)
        cmd = ['java', '-Xss256m', '-cp', '/opt/veriftools/tla/tla2tools.jar:/opt/veriftools/tla/CommunityModules-deps.jar',
               'tlc2.TLC', '-workers', '1', '-metadir', os.path.join(tmp, 'meta'), '-config', cfg, 'MC_Tables.tla']
        r = subprocess.run(cmd, cwd=os.path.join(VERIF, 'spec'), capture_output=True, text=True)
    defs, seen = [], set()
    for ln in r.stdout.split('\n'):
        if ln.startswith('"'):
            s = json.loads(ln)
            if s not in seen:
                seen.add(s)
                defs.append(json.loads(s))
    defs.sort(key=lambda d: json.dumps(d, sort_keys=True))
    os.makedirs(os.path.join(VERIF, 'pool'), exist_ok=True)
    with open(os.path.join(VERIF, 'pool', 'tables.json'), 'w') as f:
        json.dump({"steps": steps, "defs": defs}, f)
    print('pool/tables.json: %d definitions reachable within %d steps' % (len(defs), steps))


if __name__ == '__main__':
    main()
