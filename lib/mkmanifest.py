#!/usr/bin/env python3
"""Regenerates /verif/MANIFEST.json from the table below (kept valid at all times)."""
import json
import os

VERIF = os.path.dirname(os.path.dirname(os.path.abspath(__file__)))

TECH = ("explicit TLA+ specification (spec/*.tla) model-checked with TLC (one module also proved inductive with Apalache) "
        "+ TLC trace validation of events recorded from the real libnop templates (nopexec executor)")

NOTE = ("Trusted: TLC/SANY 1.8.0 and CommunityModules; g++ 12 and sanitizer runtimes; the harness wrappers and the generated "
        "C++ type <-> schema <-> abstract value mapping (round-tripped through the spec on every run); the reading of "
        "docs/format.md, docs/getting-started.md and header comments embodied in the TLA+ text. Bounded: pool of types "
        "(lib/pooldef.py) and value generators; exhaustive only where the evidence says so.")

CHECKS = {
    "C01": ("Wire.tla theorem W1 (Dec o Enc = id, MC_Wire) model-checked; every pool type x boundary/random values x "
            "1-3 consecutive values x rotating writer/reader pairings executed on real readers/writers and validated by "
            "TrCodec.tla (C01R: k-th read = k-th written value, consumed = written); the three Serializer/Deserializer "
            "specializations (writer/reader held by value, pointer, unique_ptr) and the real Constexpr/Pedantic/Stream writer and "
            "reader classes directly (typed block transfers) compared on 16 encodings (FORMS event); "
            "thorough tier repeats everything on the ASan+UBSan build.", "6 C01, 13.5"),
    "C02": ("Hostile byte strings (single-byte defects at every leading position, splices, truncations, random strings) read "
            "through BufferReader/PedanticBufferReader/BoundedReader in an ASan+UBSan build and a plain build with an "
            "allocation counter; TrCodec.tla C02R accepts an event only if no request left the source, allocation <= "
            "4096+256*len, what the read left in the destination is a value of its type (Inspectable) and the destination could be "
            "read into again; sanitizer reports are events no action accepts.", "6 C02"),
    "C03": ("Every W event of every pool type is compared byte for byte with Enc of Wire.tla (written from docs/format.md); "
            "8-bit integers exhaustive (16-bit in the thorough tier); W3 (minimal class) and W4 (size estimate) model-checked.", "6 C03"),
    "C04": ("Accept/reject, decoded value, consumed length and (for single-defect inputs) error category of every hostile input "
            "compared with Dec of Wire.tla. Inputs: byte-level damage of implementation-produced encodings at every leading "
            "position, and TLC-generated field-level mutants (Hostile.tla: every integer field re-encoded in every class and "
            "with off-by-one/overflowing/huge values). The oracle itself is model-checked: W1/W2/W3/W4b (MC_Wire) and W5, "
            "Dec <=> the declarative grammar Lang.tla on every byte string up to length 4 (5 thorough) over 21 schemas "
            "(MC_Lang).", "6 C04, 13.2"),
    "C05": ("Every strict prefix of implementation-produced encodings of every pool type read through every reader kind "
            "(buffer, pedantic, stringstream, ifstream, fd, BoundedReader over each), into a fresh destination and into one that "
            "already holds the complete value: TrCodec.tla C05RC requires a non-ok "
            "status for each, incl. an FdReader on a pipe that delivers short reads and on a descriptor whose system calls are "
            "interrupted (EINTR) and shortened; block transfers reach the reader classes with the element width the codec used, "
            "and 16 encodings are cut at every prefix through Deserializer<BufferReader/PedanticBufferReader/StreamReader> "
            "with no executor layer in between (FormsCutFails); tables written with one definition "
            "of the TLC-emitted version pool, cut at every position and read with another definition (cuts inside skipped "
            "entries and padding); W2/W2f (every prefix of Enc is "
            "rejected as truncated) and MC_Session.NoGhostSuccess (cut after any byte) model-checked.", "6 C05"),
    "C06": ("GetSize vs bytes emitted for every pool type/value, and every capacity 0..GetSize+2 on BufferWriter, "
            "PedanticBufferWriter, ConstexprBufferWriter and BoundedWriter over each with guard bytes; table entry frames "
            "re-parsed by Dec (incl. handles of every policy as entries and a handle-bearing table nested in an entry); 16 "
            "encodings written at every capacity below their length through the checked writer classes directly and "
            "through the unchecked BufferWriter behind each of the three Serializer specializations (guarded bytes; "
            "FormsCapFails); W4 model-checked.", "6 C06"),
    "C10": ("For every generated value a fault is injected at EVERY primitive call position of Read and Write with every error "
            "code (the usual ones plus others in rotation; all 18 for handle transfers); TrCodec.tla C10Runs requires the code back verbatim, no call after the failure, emitted bytes a prefix of "
            "the fault-free output and nothing written when Prepare fails. The same at the RPC layer: a fault at every "
            "primitive of each of the four pipe ends of SimpleMethodSender/Receiver calls, incl. a method without a "
            "return value (TrRpc.tla FaultFails).", "6 C10"),
    "C11": ("Reads into destinations whose prior state came from assignment or from a read that failed at primitive k are "
            "compared (status, value, consumed) with the read into a fresh object; lifetime ledger of Tracked elements must "
            "balance; ASan/UBSan build; also strings / integral vectors of 4097 and 70000 elements (alone and as members) "
            "over short, long and half-read destinations.", "6 C11"),
    "C16": ("IO.tla automata of BoundedReader/BoundedWriter: MC_IO explores every call sequence (sizes incl. 0, budget, "
            "budget+1, 2^64-1, 2^64-2; every limit; wrapped object failing at any call) and checks Confine, "
            "RefusalUntouched, Transparent; TLC-generated sequences (Gen_IO), random sequences and a ladder of request sizes and "
            "limits around 32..4096 (64 Ki thorough) are replayed on real "
            "BoundedReader/BoundedWriter over an instrumented wrapped object and every call is validated by TrIO.tla "
            "(status, index, wrapped position, exact wrapped calls, capacity()/empty()). Confine.tla models the wrappers in "
            "their machine arithmetic (wrapped size_ - index_): TLC checks it exhaustively for a 4-bit size_t together with "
            "its step refinement to IO.tla (MC_Confine), and Apalache proves its invariant inductive for the 64-bit size_t "
            "(every limit, index and request size in 0..2^64-1).", "6 C16, 13.2"),
    "C17": ("The same TLC-generated and random call sequences are executed directly on every library reader and writer "
            "(and Bounded over each; every third bounded wrapper copy-constructed in mid-sequence) with element widths 1/2/4/8 and a ladder of request sizes (31..4097, 64 Ki thorough) with "
            "sources / capacities that just suffice or are one byte short; TrIO.tla requires each call to be the step of the "
            "IO.tla contract automaton up to and including the first failing call (FdReader also over a bursty pipe, FdReader / "
            "FdWriter over descriptors whose read()/write() fail with EINTR and transfer short counts; "
            "StreamWriter over a stream that takes only cap bytes -> StreamError, FdWriter on /dev/full -> IOError), and "
            "size()/capacity()/remaining()/empty() to agree with the automaton after every call; "
            "MC_IO checks OneContract on the product of all kinds; MC_FdEnv checks the descriptor classes at system-call grain (any "
            "piece sizes, EINTR, end of file: in order, complete on OK, status as the contract says); 67 generated constexpr values are serialised in "
            "constant expressions, by the constexpr writer at run time and by the pedantic writer, and must agree.", "6 C17"),
    "C18": ("SipHash.tla (SipHash-2-4 transcribed from the paper on 16-bit limbs, self-checked against the reference "
            "vectors by MC_Fn) evaluates every hash: messages of every length/residue, uint8_t and char buffers, varied keys, "
            "and 26 generated names x (NOP_TABLE_NS hash at compile time / run time / on the wire, NOP_INTERFACE and "
            "NOP_INTERFACE32 hashes, NOP_METHOD selectors); the pointer+size and the array entry points, zero bytes "
            "anywhere, constant arrays hashed in constant expressions; TrFn.tla requires equality.", "6 C18"),
    "C20": ("Endian.tla (byte-order conversions as byte permutations, theorems checked by MC_Fn); every value of the 8/16-bit "
            "types, boundary/lane/random values of wider types and floats validated by TLC (TrFn.tla); all 2^32 inputs of "
            "uint32/int32/float (thorough; first 2^27 in quick) compared with the byte map emitted by TLC from Endian.tla.", "6 C20"),
    "C12": ("Lifetimes.tla Variant machine: TLC explores every applicable operation history (depth 3 quick / 4 thorough) "
            "checking that the canonical successor is admitted by the post-state relation, and emits every history of "
            "length 3; these and random histories (20-120 ops, 3 objects) are replayed on nop::Variant<A,B> with "
            "lifetime-tracking, possibly throwing elements under ASan; TrObj.tla validates after every operation index(), "
            "Visit (exactly one call, active element), get<T>, is<T>, the post-state relation and the ledger of live elements "
            "(no leak, no double destruction, no use of a dead element); the operations include construction / assignment "
            "from a Variant over other types, IfAnyOf Get/Call/Swap/Take, const and index-based get and std::get.", "6 C12"),
    "C13": ("Lifetimes.tla Optional/Entry/Result machines handled as C12 (Optional<Tracked>, Optional<int>, Entry<Tracked,5>, "
            "Result<E,Tracked>): emptiness/has_value/has_error/error()/bool, moved-from-by-assignment is empty, ledger; all 18 "
            "Optional relational operators on all operand states against the total order of the spec; Status<void> "
            "(Result<E,void>) as a machine of its own; converting assignment from Optional<U>; GetErrorMessage "
            "defined and distinct for every ErrorStatus.", "6 C13"),
    "C15": ("(a) W events of every handle-bearing pool type: handles pushed exactly once in the encounter order of "
            "Wire.tla's EncR, the returned reference (incl. -1, 2^31, 2^63-1, negatives) encoded after the type tag (8-bit and "
            "16-bit tags, alone, in containers, as table entries and in nested tables); reads "
            "with corrupted tags/references/unresolvable references judged by Dec (UnexpectedHandleType, "
            "InvalidHandleReference verbatim). (b) Lifetimes.tla UniqueHandle machine: invariants HClosedOnce/HUnique "
            "model-checked, TLC-generated and random ownership histories replayed on UniqueHandle<CountingPolicy>; TrObj.tla "
            "requires the exact ownership/close/release counters after every operation; the same histories run on "
            "UniqueFileHandle over real descriptors incl. descriptor 0 (closure observed with fcntl).", "6 C15"),
    "C07": ("Tables.tla: definitions evolving by add/remove/mark-deleted/reorder/replace-by-fungible with ids never reused; "
            "MC_Tables checks W6 (every pair of definitions of a history is mutually readable as Project prescribes, reader "
            "positioned after the table) over all histories of <= 4 steps (6 in the thorough tier); TLC emits the 294 "
            "reachable definitions (pool/tables.json) which are instantiated as C++ table types; every ordered (writer, "
            "reader) pair x entry assignments (every fifth pair with 130-character strings and widest-class integers, so "
            "that entry and nested-table sizes cross 127/128 bytes) is written, read - into fresh and into reused, fully "
            "populated destinations - "
            "and validated by TrCodec.tla C07R (projection, sentinel).", "6 C07"),
    "C08": ("Gen_TableMut.tla: TLC takes valid table encodings apart into entry frames and emits every single-defect "
            "reassembly (hash, count, duplicate, unknown, padding, declared size, corrupt/truncated value); the real decoder's "
            "status, value, consumed length and error category are compared with Dec of Wire.tla (TrCodec.tla); wrong "
            "hashes are a family (0, all ones, +-1, halves / single bytes cleared, top bit, reversed).", "6 C08"),
    "C09": ("Fungible.tla: DocFungible (the documented fungible pairs as a relation on schemas) and Norm (wire-level "
            "content); the compiler evaluates IsFungible and Protocol admission on all ordered pairs of a 133-type grammar "
            "(every sequence spelling - vector, std::array, C array, tuple, structure member - over every element class) "
            "(FUNG event): reflexive, symmetric, DocFungible => true, admits = value; every pair reported fungible is "
            "cross-decoded on boundary values and judged by Enc / Dec of Wire.tla (an encodable value is written, accepted "
            "when the counts fit, corresponding value, identical re-encoding).", "6 C09"),
    "C14": ("Rpc.tla: request = selector (SipHash-2-4 of the method name keyed by the interface hash, or explicit) followed by "
            "the argument tuple; Dispatch(I, bytes) says which handler must run with which arguments, or which error with no "
            "handler and no reply. MC_Rpc model-checks framing/one-handler/return invariants over all call sequences. "
            "End-to-end executions (Invoke -> SimpleMethodSender -> loopback pipes -> SimpleMethodReceiver -> "
            "InterfaceBindings -> handler) incl. truncated/corrupted/raw requests are validated call by call by TrRpc.tla "
            "(request framing, dispatcher status, handler log, reply bytes, Invoke result, pipe positions); arguments of "
            "conforming types (narrower / differently signed integers) must travel converted to the declared type "
            "(AsDeclared); Method::Selector, lookup by index and InterfaceBindings::Match are checked against the spec; with a "
            "fault injected on any pipe end a pass that reports success must have sent the whole reply (FaultedCallFails); "
            "caller and dispatcher also run as two threads over real pipes (FdWriter/FdReader).", "6 C14"),
    "C19": ("Threads.tla: per-thread, per-(T,Slot) storage; MC_Threads explores all interleavings of 2-3 threads running "
            "ThreadLocal programs (Isolation, ScheduleIndependent) and emits the schedules, which real std::threads replay in "
            "lock step (initial values handed over as rvalue, const lvalue and non-const lvalue) under injective slot renamings over nine slots (int / long under every slot naming, std::string, "
            "std::vector, std::unique_ptr values); free-running 4-16 threads mix ThreadLocal operations on shared slot types with serializer round "
            "trips (12 encodings, three Serializer forms), RPC connections and reader/writer call sequences with thread-specific "
            "padding values on their own objects, caller/dispatcher thread pairs over real pipes, and descriptor-ownership "
            "histories of FdReader/FdWriter (TrObj.tla FFold: no descriptor closed twice); TrThreads.tla validates every observation against the model and every in-thread "
            "codec step against Wire.tla; the executor is built with ThreadSanitizer and a report is a Race event that no "
            "action accepts.", "6 C19"),
}

PENDING_REASON = "check under construction in this session (DESIGN.md section 12); moves to checks when built"


def main():
    props = [json.loads(l)["id"] for l in open(os.path.join(VERIF, 'properties.jsonl'))]
    checks = []
    for pid in props:
        if pid not in CHECKS:
            continue
        text, ref = CHECKS[pid]
        checks.append({
            "property_id": pid,
            "quick_cmd": "bin/check %s --tier quick" % pid,
            "thorough_cmd": "bin/check %s --tier thorough" % pid,
            "evidence_file": "/verif/evidence/%s.json" % pid,
            "replay_cmd_template": "bin/check %s --replay {path}" % pid,
            "engine": "tlc-trace",
            "level_claimed": {"category": "model_checking", "text": text, "design_ref": "DESIGN.md section " + ref},
            "level_note": NOTE,
            "technique": TECH,
        })
    m = {
        "version": 1,
        "setup_cmd": "bin/setup",
        "hooks": {
            "guard": "NOP_VERIF_HOOKS",
            "enable": "no source hooks: the executor binds through libnop's Reader/Writer/element-type template seams; "
                      "-DNOP_VERIF_HOOKS is reserved and currently guards nothing",
            "baseline_off_cmd": "make -C /repo -j16 && /repo/out/test",
            "source_commits": [],
            "add_only": True,
        },
        "engines": [{"name": "tlc-trace", "path": "/verif/bin/check", "serves_properties": sorted(CHECKS),
                     "kind_free_text": "TLA+ specification family under /verif/spec checked by TLC; nopexec executor "
                                       "(harness/, generated from lib/pooldef.py) records events from real libnop code; "
                                       "TLC validates the events against the property's trace specification"}],
        "checks": checks,
        "not_applicable": [{"property_id": p, "reason": PENDING_REASON} for p in props if p not in CHECKS],
        "notes": "Repairs of genuine defects are 'fix:' commits in /repo, listed in /verif/known_findings.txt together "
                 "with the findings that are recorded rather than repaired.",
    }
    with open(os.path.join(VERIF, 'MANIFEST.json'), 'w') as f:
        json.dump(m, f, indent=1)
    print('MANIFEST.json: %d checks, %d pending' % (len(checks), len(m["not_applicable"])))


if __name__ == '__main__':
    main()
