// Projection between C++ values of libnop-supported types and the abstract
// values of the TLA+ specification (DESIGN.md Appendix D.1). Pure data
// conversion: nothing here knows anything about the wire format.
#ifndef VF_ABS_H_
#define VF_ABS_H_

#include <array>
#include <cstdint>
#include <cstring>
#include <functional>
#include <map>
#include <string>
#include <tuple>
#include <type_traits>
#include <unordered_map>
#include <utility>
#include <vector>

#include <nop/types/handle.h>
#include <nop/types/optional.h>
#include <nop/types/result.h>
#include <nop/types/variant.h>
#include <nop/status.h>
#include <nop/table.h>

#include "json.h"

namespace vf {

template <typename T, typename Enable = void>
struct Abs;

// ---- scalars --------------------------------------------------------------
template <typename T>
struct Abs<T, std::enable_if_t<std::is_integral<T>::value>> {
  static void to(const T& v, JsonOut& o) {
    // read the object representation (a bool filled from raw input bytes may hold any byte value)
    unsigned char raw[sizeof(T)];
    memcpy(raw, &v, sizeof(T));
    unsigned long long u = 0;
    for (size_t i = 0; i < sizeof(T); i++) u |= static_cast<unsigned long long>(raw[i]) << (8 * i);
    o.word(u, sizeof(T));
  }
  static bool from(const Json& j, T& v) {
    if (!j.is_arr()) return false;
    v = static_cast<T>(WordOf(j));
    return true;
  }
};

template <typename T>
struct Abs<T, std::enable_if_t<std::is_enum<T>::value>> {
  using U = std::underlying_type_t<T>;
  static void to(const T& v, JsonOut& o) { Abs<U>::to(static_cast<U>(v), o); }
  static bool from(const Json& j, T& v) {
    U u{};
    if (!Abs<U>::from(j, u)) return false;
    v = static_cast<T>(u);
    return true;
  }
};

template <typename T>
struct Abs<T, std::enable_if_t<std::is_floating_point<T>::value>> {
  static void to(const T& v, JsonOut& o) {
    unsigned char b[sizeof(T)];
    memcpy(b, &v, sizeof(T));
    o.bytes(b, sizeof(T));
  }
  static bool from(const Json& j, T& v) {
    if (!j.is_arr() || j.size() != sizeof(T)) return false;
    unsigned char b[sizeof(T)];
    for (size_t i = 0; i < sizeof(T); i++) b[i] = static_cast<unsigned char>(j[i].n);
    memcpy(&v, b, sizeof(T));
    return true;
  }
};

// ---- strings ---------------------------------------------------------------
template <typename C, typename Tr, typename A>
struct Abs<std::basic_string<C, Tr, A>> {
  using S = std::basic_string<C, Tr, A>;
  static void to(const S& v, JsonOut& o) {
    o.begin_obj();
    o.kv_num("cw", sizeof(C));
    o.key("b");
    o.begin_arr();
    for (C c : v) {
      using U = std::make_unsigned_t<C>;
      unsigned long long u = static_cast<U>(c);
      for (size_t i = 0; i < sizeof(C); i++) o.num((u >> (8 * i)) & 0xff);
    }
    o.end_arr();
    o.end_obj();
  }
  static bool from(const Json& j, S& v) {
    const Json& b = j.at("b");
    if (!b.is_arr() || b.size() % sizeof(C) != 0) return false;
    v.clear();
    for (size_t i = 0; i < b.size(); i += sizeof(C)) {
      unsigned long long u = 0;
      for (size_t k = 0; k < sizeof(C); k++) u |= static_cast<unsigned long long>(b[i + k].n & 0xff) << (8 * k);
      v.push_back(static_cast<C>(u));
    }
    return true;
  }
};

// ---- sequences ---------------------------------------------------------------
template <typename It>
void SeqTo(It begin, It end, JsonOut& o) {
  using E = std::decay_t<decltype(*begin)>;
  o.begin_obj();
  o.key("n");
  o.begin_arr();
  for (It it = begin; it != end; ++it) Abs<E>::to(*it, o);
  o.end_arr();
  o.end_obj();
}

template <typename T, typename A>
struct Abs<std::vector<T, A>> {
  static void to(const std::vector<T, A>& v, JsonOut& o) { SeqTo(v.begin(), v.end(), o); }
  static bool from(const Json& j, std::vector<T, A>& v) {
    const Json& n = j.at("n");
    if (!n.is_arr()) return false;
    v.clear();
    for (size_t i = 0; i < n.size(); i++) {
      T e{};
      if (!Abs<T>::from(n[i], e)) return false;
      v.push_back(std::move(e));
    }
    return true;
  }
};

template <typename T, size_t N>
struct Abs<std::array<T, N>> {
  static void to(const std::array<T, N>& v, JsonOut& o) { SeqTo(v.begin(), v.end(), o); }
  static bool from(const Json& j, std::array<T, N>& v) {
    const Json& n = j.at("n");
    if (!n.is_arr() || n.size() != N) return false;
    for (size_t i = 0; i < N; i++)
      if (!Abs<T>::from(n[i], v[i])) return false;
    return true;
  }
};

template <typename T, size_t N>
struct Abs<T[N]> {
  static void to(const T (&v)[N], JsonOut& o) { SeqTo(&v[0], &v[0] + N, o); }
  static bool from(const Json& j, T (&v)[N]) {
    const Json& n = j.at("n");
    if (!n.is_arr() || n.size() != N) return false;
    for (size_t i = 0; i < N; i++)
      if (!Abs<T>::from(n[i], v[i])) return false;
    return true;
  }
};

// Logical buffer pair (array member + size member): {"n":[first min(c,N)], "c":word}
template <typename Buf, typename Sz>
void LbufTo(const Buf& data, const Sz& count, size_t cap, JsonOut& o) {
  using E = std::decay_t<decltype(data[0])>;
  unsigned long long c = static_cast<unsigned long long>(static_cast<std::make_unsigned_t<Sz>>(count));
  bool neg = std::is_signed<Sz>::value && count < 0;
  size_t shown = (neg || c > cap) ? cap : static_cast<size_t>(c);
  o.begin_obj();
  o.key("n");
  o.begin_arr();
  for (size_t i = 0; i < shown; i++) Abs<E>::to(data[i], o);
  o.end_arr();
  o.key("c");
  Abs<Sz>::to(count, o);
  o.end_obj();
}
template <typename Buf, typename Sz>
bool LbufFrom(const Json& j, Buf& data, Sz& count, size_t cap) {
  using E = std::decay_t<decltype(data[0])>;
  const Json& n = j.at("n");
  if (!n.is_arr() || n.size() > cap) return false;
  for (size_t i = 0; i < n.size(); i++)
    if (!Abs<E>::from(n[i], data[i])) return false;
  if (j.has("c")) return Abs<Sz>::from(j.at("c"), count);
  count = static_cast<Sz>(n.size());
  return true;
}

// ---- products ----------------------------------------------------------------
template <typename A, typename B>
struct Abs<std::pair<A, B>> {
  using FA = std::remove_const_t<A>;
  static void to(const std::pair<A, B>& v, JsonOut& o) {
    o.begin_obj(); o.key("m"); o.begin_arr();
    Abs<FA>::to(v.first, o);
    Abs<B>::to(v.second, o);
    o.end_arr(); o.end_obj();
  }
  static bool from(const Json& j, std::pair<A, B>& v) {
    const Json& m = j.at("m");
    if (!m.is_arr() || m.size() != 2) return false;
    return Abs<FA>::from(m[0], const_cast<FA&>(v.first)) && Abs<B>::from(m[1], v.second);
  }
};

template <typename... Ts>
struct Abs<std::tuple<Ts...>> {
  using T = std::tuple<Ts...>;
  template <size_t I>
  static void to_i(const T&, JsonOut&, std::integral_constant<size_t, I>, std::false_type) {}
  template <size_t I>
  static void to_i(const T& v, JsonOut& o, std::integral_constant<size_t, I>, std::true_type) {
    Abs<std::tuple_element_t<I, T>>::to(std::get<I>(v), o);
    to_i(v, o, std::integral_constant<size_t, I + 1>{}, std::integral_constant<bool, (I + 1 < sizeof...(Ts))>{});
  }
  template <size_t I>
  static bool from_i(const Json&, T&, std::integral_constant<size_t, I>, std::false_type) { return true; }
  template <size_t I>
  static bool from_i(const Json& m, T& v, std::integral_constant<size_t, I>, std::true_type) {
    if (!Abs<std::tuple_element_t<I, T>>::from(m[I], std::get<I>(v))) return false;
    return from_i(m, v, std::integral_constant<size_t, I + 1>{}, std::integral_constant<bool, (I + 1 < sizeof...(Ts))>{});
  }
  static void to(const T& v, JsonOut& o) {
    o.begin_obj(); o.key("m"); o.begin_arr();
    to_i(v, o, std::integral_constant<size_t, 0>{}, std::integral_constant<bool, (0 < sizeof...(Ts))>{});
    o.end_arr(); o.end_obj();
  }
  static bool from(const Json& j, T& v) {
    const Json& m = j.at("m");
    if (!m.is_arr() || m.size() != sizeof...(Ts)) return false;
    return from_i(m, v, std::integral_constant<size_t, 0>{}, std::integral_constant<bool, (0 < sizeof...(Ts))>{});
  }
};

template <typename M>
struct AbsMap {
  using K = typename M::key_type;
  using V = typename M::mapped_type;
  static void to(const M& v, JsonOut& o) {
    o.begin_obj(); o.key("kv"); o.begin_arr();
    for (const auto& kv : v) {
      o.begin_arr();
      Abs<K>::to(kv.first, o);
      Abs<V>::to(kv.second, o);
      o.end_arr();
    }
    o.end_arr(); o.end_obj();
  }
  static bool from(const Json& j, M& v) {
    const Json& kvs = j.at("kv");
    if (!kvs.is_arr()) return false;
    v.clear();
    for (size_t i = 0; i < kvs.size(); i++) {
      K k{};
      V val{};
      if (kvs[i].size() != 2 || !Abs<K>::from(kvs[i][0], k) || !Abs<V>::from(kvs[i][1], val)) return false;
      v.emplace(std::move(k), std::move(val));
    }
    return true;
  }
};
template <typename K, typename V, typename C, typename A>
struct Abs<std::map<K, V, C, A>> : AbsMap<std::map<K, V, C, A>> {};
template <typename K, typename V, typename H, typename E, typename A>
struct Abs<std::unordered_map<K, V, H, E, A>> : AbsMap<std::unordered_map<K, V, H, E, A>> {};

template <typename T>
struct Abs<std::reference_wrapper<T>> {
  static void to(const std::reference_wrapper<T>& v, JsonOut& o) { Abs<T>::to(v.get(), o); }
  static bool from(const Json& j, std::reference_wrapper<T>& v) { return Abs<T>::from(j, v.get()); }
};

// ---- sums --------------------------------------------------------------------
template <typename T>
struct Abs<nop::Optional<T>> {
  static void to(const nop::Optional<T>& v, JsonOut& o) {
    o.begin_obj(); o.key("o"); o.begin_arr();
    if (v) Abs<T>::to(v.get(), o);
    o.end_arr(); o.end_obj();
  }
  static bool from(const Json& j, nop::Optional<T>& v) {
    const Json& a = j.at("o");
    if (!a.is_arr()) return false;
    if (a.size() == 0) { v.clear(); return true; }
    T e{};
    if (!Abs<T>::from(a[0], e)) return false;
    v = std::move(e);
    return true;
  }
};

template <typename R, typename E, typename T>
struct AbsResult {
  static void to(const R& v, JsonOut& o) {
    o.begin_obj();
    if (v.has_value()) { o.kv_str("r", "val"); o.key("v"); Abs<T>::to(v.get(), o); }
    else if (v.has_error()) { o.kv_str("r", "err"); o.key("e"); Abs<E>::to(v.error(), o); }
    else { o.kv_str("r", "none"); o.key("e"); Abs<E>::to(v.error(), o); }
    o.end_obj();
  }
  static bool from(const Json& j, R& v) {
    const std::string& r = j.at("r").s;
    if (r == "none") { v.clear(); return true; }
    if (r == "err") {
      E e{};
      if (!Abs<E>::from(j.at("e"), e)) return false;
      v = e;
      return true;
    }
    if (r == "val") {
      T t{};
      if (!Abs<T>::from(j.at("v"), t)) return false;
      v = std::move(t);
      return true;
    }
    return false;
  }
};
template <typename E, typename T>
struct Abs<nop::Result<E, T>> : AbsResult<nop::Result<E, T>, E, T> {};
template <typename T>
struct Abs<nop::Status<T>> : AbsResult<nop::Status<T>, nop::ErrorStatus, T> {};

template <>
struct Abs<nop::EmptyVariant> {
  static void to(const nop::EmptyVariant&, JsonOut& o) { o.begin_obj(); o.kv_bool("ev", true); o.end_obj(); }
  static bool from(const Json&, nop::EmptyVariant&) { return true; }
};

template <typename... Ts>
struct Abs<nop::Variant<Ts...>> {
  using V = nop::Variant<Ts...>;
  struct ToVisitor {
    JsonOut& o;
    void operator()(nop::EmptyVariant) const {}
    template <typename E>
    void operator()(const E& e) const { o.key("v"); Abs<E>::to(e, o); }
  };
  static void to(const V& v, JsonOut& o) {
    o.begin_obj();
    o.kv_word("i", static_cast<uint32_t>(v.index()), 4);
    v.Visit(ToVisitor{o});
    o.end_obj();
  }
  template <size_t I>
  static bool from_i(const Json&, long, V&, std::integral_constant<size_t, I>, std::false_type) { return false; }
  template <size_t I>
  static bool from_i(const Json& j, long idx, V& v, std::integral_constant<size_t, I>, std::true_type) {
    if (idx == static_cast<long>(I)) {
      using E = std::tuple_element_t<I, std::tuple<Ts...>>;
      // Become + in-place fill (assignment from an element that is itself a
      // Variant resolves to the Variant-to-Variant overload).
      v.Become(static_cast<std::int32_t>(I));
      E* p = v.template get<I>();
      return p != nullptr && Abs<E>::from(j.at("v"), *p);
    }
    return from_i(j, idx, v, std::integral_constant<size_t, I + 1>{}, std::integral_constant<bool, (I + 1 < sizeof...(Ts))>{});
  }
  static bool from(const Json& j, V& v) {
    long idx = static_cast<int32_t>(WordOf(j.at("i")));
    if (idx == -1) { v = nop::EmptyVariant{}; return true; }
    return from_i(j, idx, v, std::integral_constant<size_t, 0>{}, std::integral_constant<bool, (0 < sizeof...(Ts))>{});
  }
};

template <typename P>
struct Abs<nop::Handle<P>> {
  static void to(const nop::Handle<P>& v, JsonOut& o) {
    o.begin_obj();
    o.kv_word("h", static_cast<unsigned long long>(static_cast<long long>(v.get())), 8);
    o.kv_bool("valid", static_cast<bool>(v));
    o.end_obj();
  }
  static bool from(const Json& j, nop::Handle<P>& v) {
    v = nop::Handle<P>{static_cast<typename P::Type>(static_cast<long long>(WordOf(j.at("h"))))};
    return true;
  }
};

// Table entries: used by the generated Abs<Table> specialisations.
template <typename T, std::uint64_t Id>
void EntryTo(const nop::Entry<T, Id, nop::ActiveEntry>& e, JsonOut& o) {
  o.begin_obj();
  o.kv_word("id", Id, 8);
  o.kv_bool("p", !e.empty());
  if (!e.empty()) { o.key("v"); Abs<T>::to(e.get(), o); }
  o.end_obj();
}
template <typename T, std::uint64_t Id>
void EntryTo(const nop::Entry<T, Id, nop::DeletedEntry>&, JsonOut& o) {
  o.begin_obj();
  o.kv_word("id", Id, 8);
  o.kv_bool("p", false);
  o.end_obj();
}
template <typename T, std::uint64_t Id>
bool EntryFrom(const Json& j, nop::Entry<T, Id, nop::ActiveEntry>& e) {
  if (!j.at("p").truthy()) { e.clear(); return true; }
  T t{};
  if (!Abs<T>::from(j.at("v"), t)) return false;
  e = std::move(t);
  return true;
}
template <typename T, std::uint64_t Id>
bool EntryFrom(const Json&, nop::Entry<T, Id, nop::DeletedEntry>&) { return true; }

// ---- holder: uniform storage for top-level values ------------------------------
template <typename T>
struct Holder {
  T v{};
  T& ref() { return v; }
};
template <typename T>
struct Holder<std::reference_wrapper<T>> {
  T target{};
  std::reference_wrapper<T> v{target};
  std::reference_wrapper<T>& ref() { return v; }
};

}  // namespace vf

#endif  // VF_ABS_H_
