// "sip", "end", "end32", "names" commands: SipHash (C18) and HostEndian (C20).
#include <atomic>
#include <thread>

#include <nop/utility/endian.h>
#include <nop/utility/sip_hash.h>

#include "ops.h"

namespace vf {

// ---- SipHash -------------------------------------------------------------------
// {"c":"sip","k0":word8,"k1":word8,"msg":[bytes]}: run-time hash over the same bytes presented as
// uint8_t and as char buffers.
// The array entry point SipHash::Compute(const T (&)[Size], k0, k1) - the one NOP_TABLE_NS / NOP_INTERFACE /
// NOP_METHOD go through - for the fixed sizes below: every byte of the array counts, zero bytes included.
template <typename T, size_t N>
static uint64_t SipArray(const std::vector<uint8_t>& msg, uint64_t k0, uint64_t k1) {
  T arr[N];
  for (size_t i = 0; i < N; i++) arr[i] = static_cast<T>(msg[i]);
  return nop::SipHash::Compute(arr, k0, k1);
}
template <typename T>
static bool SipArrayN(const std::vector<uint8_t>& msg, uint64_t k0, uint64_t k1, uint64_t* out) {
  switch (msg.size()) {
#define VF_SIP_CASE(N) case N: *out = SipArray<T, N>(msg, k0, k1); return true;
    VF_SIP_CASE(1) VF_SIP_CASE(2) VF_SIP_CASE(3) VF_SIP_CASE(4) VF_SIP_CASE(5) VF_SIP_CASE(6) VF_SIP_CASE(7) VF_SIP_CASE(8)
    VF_SIP_CASE(9) VF_SIP_CASE(10) VF_SIP_CASE(11) VF_SIP_CASE(12) VF_SIP_CASE(13) VF_SIP_CASE(14) VF_SIP_CASE(15)
    VF_SIP_CASE(16) VF_SIP_CASE(17) VF_SIP_CASE(23) VF_SIP_CASE(24) VF_SIP_CASE(25) VF_SIP_CASE(31) VF_SIP_CASE(32)
    VF_SIP_CASE(33) VF_SIP_CASE(64)
#undef VF_SIP_CASE
    default: return false;
  }
}
// compile-time hashes of arrays with interior / trailing zero bytes (constant expressions)
struct CtArr { const char* label; std::vector<uint8_t> bytes; uint64_t h; };
static constexpr char kPadded[16] = "padded";                 // zero-padded name kept in a larger array
static constexpr char kInterior[] = "in\0terior";              // embedded zero in a literal
static constexpr std::uint8_t kBin[12] = {1, 0, 2, 0, 0, 3, 0x80, 0, 0xff, 0, 0, 0};
static constexpr std::uint8_t kZeros[9] = {0, 0, 0, 0, 0, 0, 0, 0, 0};
static constexpr uint64_t kCtK0 = 0x0706050403020100ull, kCtK1 = 0x0f0e0d0c0b0a0908ull;
static constexpr uint64_t kHPadded = nop::SipHash::Compute(kPadded, kCtK0, kCtK1);
static constexpr uint64_t kHInterior = nop::SipHash::Compute(kInterior, kCtK0, kCtK1);
static constexpr uint64_t kHBin = nop::SipHash::Compute(kBin, kCtK0, kCtK1);
static constexpr uint64_t kHZeros = nop::SipHash::Compute(kZeros, kCtK0, kCtK1);
template <typename T, size_t N>
static void EmitCtArr(JsonOut& o, const char* label, const T (&a)[N], uint64_t h) {
  o.begin_obj();
  o.kv_str("label", label);
  std::vector<uint8_t> b(N);
  for (size_t i = 0; i < N; i++) b[i] = static_cast<uint8_t>(a[i]);
  o.key("msg"); o.bytes(b.data(), b.size());
  o.kv_word("ct", h, 8);
  o.end_obj();
}

static void CmdSip(const Json& cmd, JsonOut& o) {
  if (cmd.has("ctarrays")) {
    o.kv_str("e", "SIPCT");
    o.kv_word("k0", kCtK0, 8);
    o.kv_word("k1", kCtK1, 8);
    o.key("rows");
    o.begin_arr();
    EmitCtArr(o, "zero-padded char[16]", kPadded, kHPadded);
    EmitCtArr(o, "literal with embedded zero", kInterior, kHInterior);
    EmitCtArr(o, "binary uint8_t[12]", kBin, kHBin);
    EmitCtArr(o, "all-zero uint8_t[9]", kZeros, kHZeros);
    o.end_arr();
    return;
  }
  std::vector<uint8_t> msg = BytesOf(cmd.at("msg"));
  const uint64_t k0 = WordOf(cmd.at("k0")), k1 = WordOf(cmd.at("k1"));
  o.kv_str("e", "SIP");
  o.kv_word("k0", k0, 8);
  o.kv_word("k1", k1, 8);
  o.key("msg"); o.bytes(msg.data(), msg.size());
  std::vector<uint8_t> u8buf(msg.size() + 1);
  std::vector<char> chbuf(msg.size() + 1);
  for (size_t i = 0; i < msg.size(); i++) { u8buf[i] = msg[i]; chbuf[i] = static_cast<char>(msg[i]); }
  const uint64_t h_u8 = nop::SipHash::Compute(nop::BlockReader<uint8_t>(u8buf.data(), msg.size()), k0, k1);
  const uint64_t h_ch = nop::SipHash::Compute(nop::BlockReader<char>(chbuf.data(), msg.size()), k0, k1);
  o.kv_word("u8", h_u8, 8);
  o.kv_word("ch", h_ch, 8);
  uint64_t ha = 0;
  if (SipArrayN<uint8_t>(msg, k0, k1, &ha)) o.kv_word("au8", ha, 8);
  if (SipArrayN<char>(msg, k0, k1, &ha)) o.kv_word("ach", ha, 8);
}

// ---- HostEndian ------------------------------------------------------------------
template <typename T>
static T ApplyEndian(const std::string& op, T v) {
  if (op == "FromLittle") return nop::HostEndian<T>::FromLittle(v);
  if (op == "ToLittle") return nop::HostEndian<T>::ToLittle(v);
  if (op == "FromBig") return nop::HostEndian<T>::FromBig(v);
  return nop::HostEndian<T>::ToBig(v);
}

template <typename T>
static void EndPairs(const Json& cmd, JsonOut& o) {
  const std::string& op = cmd.at("op").s;
  o.kv_num("w", sizeof(T));
  o.key("pairs");
  o.begin_arr();
  for (auto& in : cmd.at("in").a) {
    T v;
    uint8_t b[sizeof(T)];
    for (size_t i = 0; i < sizeof(T); i++) b[i] = static_cast<uint8_t>(in[i].n);
    memcpy(&v, b, sizeof(T));
    T r = ApplyEndian<T>(op, v);
    uint8_t ob[sizeof(T)];
    memcpy(ob, &r, sizeof(T));
    o.begin_arr();
    o.bytes(b, sizeof(T));
    o.bytes(ob, sizeof(T));
    o.end_arr();
  }
  o.end_arr();
}

// All 2^32 inputs of a 32-bit type against a byte-index map emitted by TLC from Endian.tla.
template <typename T>
static void End32(const Json& cmd, JsonOut& o) {
  const std::string op = cmd.at("op").s;
  int map[4];
  for (int i = 0; i < 4; i++) map[i] = static_cast<int>(cmd.at("map")[i].n) - 1;
  const unsigned nthreads = 16;
  std::atomic<uint64_t> first_bad{~0ull};
  std::vector<std::thread> ts;
  const uint64_t limit = cmd.has("count") ? static_cast<uint64_t>(cmd.at("count").num()) : (1ull << 32);
  for (unsigned t = 0; t < nthreads; t++) {
    ts.emplace_back([&, t]() {
      for (uint64_t x = t; x < limit; x += nthreads) {
        uint32_t in = static_cast<uint32_t>(x);
        uint8_t b[4], eb[4], ob[4];
        memcpy(b, &in, 4);
        for (int i = 0; i < 4; i++) eb[i] = b[map[i]];
        T v;
        memcpy(&v, b, 4);
        T r = ApplyEndian<T>(op, v);
        memcpy(ob, &r, 4);
        if (memcmp(ob, eb, 4) != 0) {
          uint64_t cur = first_bad.load();
          while (x < cur && !first_bad.compare_exchange_weak(cur, x)) {}
          return;
        }
      }
    });
  }
  for (auto& t : ts) t.join();
  o.kv_num("w", 4);
  o.key("map"); WriteJson(cmd.at("map"), o);
  o.kv_word("checked", limit, 8);
  o.key("bad");
  o.begin_arr();
  if (first_bad.load() != ~0ull) {
    uint32_t in = static_cast<uint32_t>(first_bad.load());
    T v; memcpy(&v, &in, 4);
    T r = ApplyEndian<T>(op, v);
    uint8_t b[4], ob[4];
    memcpy(b, &in, 4); memcpy(ob, &r, 4);
    o.begin_arr(); o.bytes(b, 4); o.bytes(ob, 4); o.end_arr();
  }
  o.end_arr();
}

static void CmdEnd(const Json& cmd, JsonOut& o) {
  const std::string& t = cmd.at("T").s;
  const bool all32 = cmd.at("c").s == "end32";
  o.kv_str("e", all32 ? "END32" : "END");
  o.kv_str("T", t);
  o.kv_str("op", cmd.at("op").s);
  const uint32_t probe = 0x01020304;
  o.kv_bool("le", *reinterpret_cast<const uint8_t*>(&probe) == 4);
  if (all32) {
    if (t == "u32") End32<uint32_t>(cmd, o);
    else if (t == "i32") End32<int32_t>(cmd, o);
    else if (t == "f32") End32<float>(cmd, o);
    return;
  }
  if (t == "u8") EndPairs<uint8_t>(cmd, o);
  else if (t == "i8") EndPairs<int8_t>(cmd, o);
  else if (t == "u16") EndPairs<uint16_t>(cmd, o);
  else if (t == "i16") EndPairs<int16_t>(cmd, o);
  else if (t == "u32") EndPairs<uint32_t>(cmd, o);
  else if (t == "i32") EndPairs<int32_t>(cmd, o);
  else if (t == "u64") EndPairs<uint64_t>(cmd, o);
  else if (t == "i64") EndPairs<int64_t>(cmd, o);
  else if (t == "f32") EndPairs<float>(cmd, o);
  else if (t == "f64") EndPairs<double>(cmd, o);
}

// ---- names: compile-time hashes of generated declarations (names_gen.cpp) ------------
std::vector<NameRow>& NameRows() {
  static std::vector<NameRow> rows;
  return rows;
}

static void CmdNames(const Json&, JsonOut& o) {
  o.kv_str("e", "NAMES");
  o.key("rows");
  o.begin_arr();
  for (auto& r : NameRows()) {
    o.begin_obj();
    o.kv_str("kind", r.kind);
    o.key("name"); o.bytes(r.name.data(), r.name.size());
    o.kv_word("ct", r.hash_ct, 8);
    o.kv_word("rt", r.hash_rt, 8);
    if (r.selector_width) { o.kv_num("sw", r.selector_width); o.kv_word("sel", r.selector_ct, r.selector_width); }
    if (!r.wire.empty()) { o.key("wire"); o.bytes(r.wire.data(), r.wire.size()); }
    o.end_obj();
  }
  o.end_arr();
}

static CommandRegistrar r_sip("sip", CmdSip), r_end("end", CmdEnd), r_end32("end32", CmdEnd), r_names("names", CmdNames);

}  // namespace vf
