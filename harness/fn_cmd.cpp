// "sip", "end", "end32", "names" commands: SipHash (C18) and HostEndian (C20).
#include <atomic>
#include <thread>

#include <nop/utility/endian.h>
#include <nop/utility/sip_hash.h>

#include "ops.h"

namespace vf {

// ---- SipHash -------------------------------------------------------------------
// {"c":"sip","k0":word8,"k1":word8,"msg":[bytes]}: run-time hash over the same bytes presented as
// uint8_t and as char buffers.
static void CmdSip(const Json& cmd, JsonOut& o) {
  std::vector<uint8_t> msg = BytesOf(cmd.at("msg"));
  const uint64_t k0 = WordOf(cmd.at("k0")), k1 = WordOf(cmd.at("k1"));
  o.kv_str("e", "SIP");
  o.kv_word("k0", k0, 8);
  o.kv_word("k1", k1, 8);
  o.key("msg"); o.bytes(msg.data(), msg.size());
  std::vector<uint8_t> u8buf(msg.size() + 1);
  std::vector<char> chbuf(msg.size() + 1);
  for (size_t i = 0; i < msg.size(); i++) { u8buf[i] = msg[i]; chbuf[i] = static_cast<char>(msg[i]); }
  const uint64_t h_u8 = nop::SipHash::Compute(nop::BlockReader<uint8_t>(u8buf.data(), msg.size()), k0, k1);
  const uint64_t h_ch = nop::SipHash::Compute(nop::BlockReader<char>(chbuf.data(), msg.size()), k0, k1);
  o.kv_word("u8", h_u8, 8);
  o.kv_word("ch", h_ch, 8);
}

// ---- HostEndian ------------------------------------------------------------------
template <typename T>
static T ApplyEndian(const std::string& op, T v) {
  if (op == "FromLittle") return nop::HostEndian<T>::FromLittle(v);
  if (op == "ToLittle") return nop::HostEndian<T>::ToLittle(v);
  if (op == "FromBig") return nop::HostEndian<T>::FromBig(v);
  return nop::HostEndian<T>::ToBig(v);
}

template <typename T>
static void EndPairs(const Json& cmd, JsonOut& o) {
  const std::string& op = cmd.at("op").s;
  o.kv_num("w", sizeof(T));
  o.key("pairs");
  o.begin_arr();
  for (auto& in : cmd.at("in").a) {
    T v;
    uint8_t b[sizeof(T)];
    for (size_t i = 0; i < sizeof(T); i++) b[i] = static_cast<uint8_t>(in[i].n);
    memcpy(&v, b, sizeof(T));
    T r = ApplyEndian<T>(op, v);
    uint8_t ob[sizeof(T)];
    memcpy(ob, &r, sizeof(T));
    o.begin_arr();
    o.bytes(b, sizeof(T));
    o.bytes(ob, sizeof(T));
    o.end_arr();
  }
  o.end_arr();
}

// All 2^32 inputs of a 32-bit type against a byte-index map emitted by TLC from Endian.tla.
template <typename T>
static void End32(const Json& cmd, JsonOut& o) {
  const std::string op = cmd.at("op").s;
  int map[4];
  for (int i = 0; i < 4; i++) map[i] = static_cast<int>(cmd.at("map")[i].n) - 1;
  const unsigned nthreads = 16;
  std::atomic<uint64_t> first_bad{~0ull};
  std::vector<std::thread> ts;
  const uint64_t limit = cmd.has("count") ? static_cast<uint64_t>(cmd.at("count").num()) : (1ull << 32);
  for (unsigned t = 0; t < nthreads; t++) {
    ts.emplace_back([&, t]() {
      for (uint64_t x = t; x < limit; x += nthreads) {
        uint32_t in = static_cast<uint32_t>(x);
        uint8_t b[4], eb[4], ob[4];
        memcpy(b, &in, 4);
        for (int i = 0; i < 4; i++) eb[i] = b[map[i]];
        T v;
        memcpy(&v, b, 4);
        T r = ApplyEndian<T>(op, v);
        memcpy(ob, &r, 4);
        if (memcmp(ob, eb, 4) != 0) {
          uint64_t cur = first_bad.load();
          while (x < cur && !first_bad.compare_exchange_weak(cur, x)) {}
          return;
        }
      }
    });
  }
  for (auto& t : ts) t.join();
  o.kv_num("w", 4);
  o.key("map"); WriteJson(cmd.at("map"), o);
  o.kv_word("checked", limit, 8);
  o.key("bad");
  o.begin_arr();
  if (first_bad.load() != ~0ull) {
    uint32_t in = static_cast<uint32_t>(first_bad.load());
    T v; memcpy(&v, &in, 4);
    T r = ApplyEndian<T>(op, v);
    uint8_t b[4], ob[4];
    memcpy(b, &in, 4); memcpy(ob, &r, 4);
    o.begin_arr(); o.bytes(b, 4); o.bytes(ob, 4); o.end_arr();
  }
  o.end_arr();
}

static void CmdEnd(const Json& cmd, JsonOut& o) {
  const std::string& t = cmd.at("T").s;
  const bool all32 = cmd.at("c").s == "end32";
  o.kv_str("e", all32 ? "END32" : "END");
  o.kv_str("T", t);
  o.kv_str("op", cmd.at("op").s);
  const uint32_t probe = 0x01020304;
  o.kv_bool("le", *reinterpret_cast<const uint8_t*>(&probe) == 4);
  if (all32) {
    if (t == "u32") End32<uint32_t>(cmd, o);
    else if (t == "i32") End32<int32_t>(cmd, o);
    else if (t == "f32") End32<float>(cmd, o);
    return;
  }
  if (t == "u8") EndPairs<uint8_t>(cmd, o);
  else if (t == "i8") EndPairs<int8_t>(cmd, o);
  else if (t == "u16") EndPairs<uint16_t>(cmd, o);
  else if (t == "i16") EndPairs<int16_t>(cmd, o);
  else if (t == "u32") EndPairs<uint32_t>(cmd, o);
  else if (t == "i32") EndPairs<int32_t>(cmd, o);
  else if (t == "u64") EndPairs<uint64_t>(cmd, o);
  else if (t == "i64") EndPairs<int64_t>(cmd, o);
  else if (t == "f32") EndPairs<float>(cmd, o);
  else if (t == "f64") EndPairs<double>(cmd, o);
}

// ---- names: compile-time hashes of generated declarations (names_gen.cpp) ------------
std::vector<NameRow>& NameRows() {
  static std::vector<NameRow> rows;
  return rows;
}

static void CmdNames(const Json&, JsonOut& o) {
  o.kv_str("e", "NAMES");
  o.key("rows");
  o.begin_arr();
  for (auto& r : NameRows()) {
    o.begin_obj();
    o.kv_str("kind", r.kind);
    o.key("name"); o.bytes(r.name.data(), r.name.size());
    o.kv_word("ct", r.hash_ct, 8);
    o.kv_word("rt", r.hash_rt, 8);
    if (r.selector_width) { o.kv_num("sw", r.selector_width); o.kv_word("sel", r.selector_ct, r.selector_width); }
    if (!r.wire.empty()) { o.key("wire"); o.bytes(r.wire.data(), r.wire.size()); }
    o.end_obj();
  }
  o.end_arr();
}

static CommandRegistrar r_sip("sip", CmdSip), r_end("end", CmdEnd), r_end32("end32", CmdEnd), r_names("names", CmdNames);

}  // namespace vf
