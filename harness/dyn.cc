#include "dyn.h"

#include <sys/ioctl.h>
#include <sys/stat.h>
#include <sys/syscall.h>

#include <thread>

#include <atomic>
#include <cstdio>
#include <cstdlib>

namespace vf {

std::string g_workdir = "/tmp";
bool g_alloc_on = true;

std::string TempPath(const char* stem) {
  static std::atomic<unsigned long> counter{0};
  char buf[512];
  snprintf(buf, sizeof buf, "%s/%s.%d.%lu", g_workdir.c_str(), stem, getpid(),
           counter.fetch_add(1));
  return buf;
}

int MakeReadFd(const uint8_t* data, size_t n) {
  if (n <= 32768) {
    int fds[2];
    if (pipe(fds) != 0) return -1;
    size_t off = 0;
    while (off < n) {
      ssize_t r = ::write(fds[1], data + off, n - off);
      if (r <= 0) break;
      off += static_cast<size_t>(r);
    }
    ::close(fds[1]);
    return fds[0];
  }
  std::string path = TempPath("rfd");
  int fd = ::open(path.c_str(), O_RDWR | O_CREAT | O_TRUNC, 0600);
  if (fd < 0) return -1;
  size_t off = 0;
  while (off < n) {
    ssize_t r = ::write(fd, data + off, n - off);
    if (r <= 0) break;
    off += static_cast<size_t>(r);
  }
  ::lseek(fd, 0, SEEK_SET);
  ::unlink(path.c_str());
  return fd;
}

namespace {
struct FlakySlot {
  std::atomic<int> fd{-1};
  std::atomic<unsigned> calls{0};
};
FlakySlot g_flaky[32];
}  // namespace
void MarkFlakyFd(int fd) {
  for (auto& s : g_flaky) {
    int expected = -1;
    if (s.fd.compare_exchange_strong(expected, fd)) { s.calls.store(0); return; }
  }
}
void UnmarkFlakyFd(int fd) {
  for (auto& s : g_flaky) {
    int expected = fd;
    if (s.fd.compare_exchange_strong(expected, -1)) return;
  }
}
// 0: not marked; otherwise 1 + the number of earlier calls on the descriptor
static unsigned FlakyTick(int fd) {
  if (fd < 0) return 0;
  for (auto& s : g_flaky)
    if (s.fd.load(std::memory_order_relaxed) == fd) return 1 + s.calls.fetch_add(1);
  return 0;
}

struct BurstFeeder::Impl {
  std::vector<uint8_t> data;
  int wfd = -1, pollfd = -1;
  unsigned seed = 1;
  std::atomic<bool> stop{false};
  std::thread th;
  void Run() {
    size_t off = 0;
    unsigned x = seed * 2654435761u + 12345u;
    while (off < data.size() && !stop.load()) {
      x = x * 1103515245u + 12345u;
      size_t chunk = 1 + (x >> 16) % 5;            // bursts of 1..5 bytes
      if (chunk > data.size() - off) chunk = data.size() - off;
      if (::write(wfd, data.data() + off, chunk) != static_cast<ssize_t>(chunk)) break;
      off += chunk;
      // wait until the reader has drained the pipe
      while (!stop.load()) {
        int avail = 0;
        if (::ioctl(pollfd, FIONREAD, &avail) != 0 || avail == 0) break;
        std::this_thread::yield();
      }
    }
    ::close(wfd);
    wfd = -1;
  }
};

BurstFeeder::BurstFeeder(const uint8_t* data, size_t n, unsigned seed) : impl_(new Impl), rfd_(-1) {
  int fds[2];
  if (pipe(fds) != 0) return;
  rfd_ = fds[0];
  impl_->wfd = fds[1];
  impl_->pollfd = ::dup(fds[0]);
  impl_->data.assign(data, data + n);
  impl_->seed = seed;
  impl_->th = std::thread([this]() { impl_->Run(); });
}

BurstFeeder::~BurstFeeder() {
  impl_->stop.store(true);
  if (impl_->th.joinable()) impl_->th.join();
  if (impl_->wfd >= 0) ::close(impl_->wfd);
  if (impl_->pollfd >= 0) ::close(impl_->pollfd);
  delete impl_;
}

DynReader::DynReader(const ReaderSpec& spec, const uint8_t* data, size_t n) {
  srclen_ = n;
#if defined(VF_SAN)
  const size_t slack = 0;   // exactly sized: the sanitizer sees any over-read
#else
  const size_t slack = 4096;  // poison after the input: an over-read is observed, not fatal
#endif
  heap_ = new uint8_t[n + slack ? n + slack : 1];
  if (n) memcpy(heap_, data, n);
  memset(heap_ + n, 0xCD, slack);
  const std::string& k = spec.kind;
  const size_t lim = static_cast<size_t>(spec.limit);
  using SS = nop::StreamReader<std::stringstream>;
  using FS = nop::StreamReader<std::ifstream>;
  if (k == "buffer") {
    buffer_backed_ = true;
    if (spec.bounded) impl_.reset(new RBounded<nop::BufferReader>(lim, heap_, n));
    else impl_.reset(new RDirect<nop::BufferReader>(heap_, n));
  } else if (k == "pedantic") {
    buffer_backed_ = true;
    if (spec.bounded) impl_.reset(new RBounded<nop::PedanticBufferReader>(lim, heap_, n));
    else impl_.reset(new RDirect<nop::PedanticBufferReader>(heap_, n));
  } else if (k == "sstream") {
    std::string str(reinterpret_cast<const char*>(heap_), n);
    if (spec.bounded) impl_.reset(new RBounded<SS>(lim, str));
    else impl_.reset(new RDirect<SS>(str));
  } else if (k == "fstream") {
    tmpfile_ = TempPath("rfs");
    {
      std::ofstream out(tmpfile_, std::ios::binary | std::ios::trunc);
      out.write(reinterpret_cast<const char*>(heap_), static_cast<std::streamsize>(n));
    }
    if (spec.bounded) impl_.reset(new RBounded<FS>(lim, tmpfile_, std::ios::in | std::ios::binary));
    else impl_.reset(new RDirect<FS>(tmpfile_, std::ios::in | std::ios::binary));
  } else if (k == "sparse") {
    impl_.reset(new RSparse(heap_, n));
  } else if (k == "fdburst") {
    feeder_.reset(new BurstFeeder(heap_, n, static_cast<unsigned>(n * 31 + 7)));
    int fd = feeder_->read_fd();
    if (spec.bounded) impl_.reset(new RBounded<nop::FdReader, false>(lim, fd));
    else impl_.reset(new RFd(fd));
  } else if (k == "fd" || k == "fdintr") {
    int fd = MakeReadFd(heap_, n);
    if (k == "fdintr") { flaky_fd_ = fd; MarkFlakyFd(fd); }
    if (spec.bounded) impl_.reset(new RBounded<nop::FdReader, false>(lim, fd));
    else impl_.reset(new RFd(fd));
  } else {
    fprintf(stderr, "nopexec: unknown reader kind '%s'\n", k.c_str());
    abort();
  }
}

DynReader::~DynReader() {
  if (flaky_fd_ >= 0) UnmarkFlakyFd(flaky_fd_);
  impl_.reset();
  feeder_.reset();
  delete[] heap_;
  if (!tmpfile_.empty()) ::unlink(tmpfile_.c_str());
}

#if defined(VF_SAN)
static const uint64_t kGuard = 0;
#else
static const uint64_t kGuard = 64;
#endif

DynWriter::DynWriter(const WriterSpec& spec) : spec_(spec) {
  const std::string& k = spec.kind;
  const size_t lim = static_cast<size_t>(spec.limit);
  cap_ = spec.has_cap ? spec.cap : (1u << 20);
  using SW = nop::StreamWriter<std::stringstream>;
  if (k == "buffer" || k == "pedantic" || k == "constexpr") {
    guard_ = kGuard;
    heap_ = new uint8_t[(cap_ + guard_) ? (cap_ + guard_) : 1];
    memset(heap_, 0xEE, cap_);
    memset(heap_ + cap_, 0xA5, guard_);
  } else {
    cap_ = ~0ull;
  }
  if (k == "buffer") {
    unchecked_ = true;
    in_buffer_.reset(new nop::BufferWriter(heap_, cap_));
    if (spec.bounded) impl_.reset(new WBounded<nop::BufferWriter>(in_buffer_.get(), lim));
    else impl_.reset(new WRef<nop::BufferWriter>(in_buffer_.get()));
  } else if (k == "pedantic") {
    in_pedantic_.reset(new nop::PedanticBufferWriter(heap_, cap_));
    if (spec.bounded) impl_.reset(new WBounded<nop::PedanticBufferWriter>(in_pedantic_.get(), lim));
    else impl_.reset(new WRef<nop::PedanticBufferWriter>(in_pedantic_.get()));
  } else if (k == "constexpr") {
    in_constexpr_.reset(new nop::ConstexprBufferWriter(heap_, cap_));
    if (spec.bounded) impl_.reset(new WBounded<nop::ConstexprBufferWriter>(in_constexpr_.get(), lim));
    else impl_.reset(new WRef<nop::ConstexprBufferWriter>(in_constexpr_.get()));
  } else if (k == "sstream") {
    in_stream_.reset(new SW());
    if (spec.bounded) impl_.reset(new WBounded<SW>(in_stream_.get(), lim));
    else impl_.reset(new WRef<SW, true, false>(in_stream_.get()));
  } else if (k == "fd" || k == "fdintr") {
    tmpfile_ = TempPath("wfd");
    int fd = ::open(tmpfile_.c_str(), O_WRONLY | O_CREAT | O_TRUNC, 0600);
    if (k == "fdintr") { flaky_fd_ = fd; MarkFlakyFd(fd); }
    in_fd_.reset(new nop::FdWriter(fd));
    if (spec.bounded) impl_.reset(new WBounded<nop::FdWriter, false>(in_fd_.get(), lim));
    else impl_.reset(new WRef<nop::FdWriter, false, false>(in_fd_.get()));
  } else {
    fprintf(stderr, "nopexec: unknown writer kind '%s'\n", k.c_str());
    abort();
  }
}

DynWriter::~DynWriter() {
  if (flaky_fd_ >= 0) UnmarkFlakyFd(flaky_fd_);
  impl_.reset();
  in_fd_.reset();
  delete[] heap_;
  if (!tmpfile_.empty()) ::unlink(tmpfile_.c_str());
}

std::vector<uint8_t> DynWriter::Output() {
  std::vector<uint8_t> out;
  const std::string& k = spec_.kind;
  if (k == "buffer" || k == "pedantic" || k == "constexpr") {
    size_t n = k == "buffer" ? in_buffer_->size()
               : k == "pedantic" ? in_pedantic_->size() : in_constexpr_->size();
    if (n > cap_) n = cap_;
    out.assign(heap_, heap_ + n);
  } else if (k == "sstream") {
    std::string s = in_stream_->stream().str();
    out.assign(s.begin(), s.end());
  } else if (k == "fd" || k == "fdintr") {
    int fd = ::open(tmpfile_.c_str(), O_RDONLY);
    if (fd >= 0) {
      uint8_t buf[65536];
      ssize_t r;
      while ((r = ::read(fd, buf, sizeof buf)) > 0) out.insert(out.end(), buf, buf + r);
      ::close(fd);
    }
  }
  return out;
}

bool DynWriter::GuardIntact() const {
  for (uint64_t i = 0; i < guard_; i++)
    if (heap_[cap_ + i] != 0xA5) return false;
  return true;
}

}  // namespace vf

#if !defined(VF_TSAN)
extern "C" ssize_t read(int fd, void* buf, size_t n) {
  if (unsigned t = vf::FlakyTick(fd)) {
    const unsigned c = t - 1;
    if (c % 3 == 2) { errno = EINTR; return -1; }
    const size_t most = 1 + (c / 3) % 3;
    if (n > most) n = most;
  }
  return syscall(SYS_read, fd, buf, n);
}
extern "C" ssize_t write(int fd, const void* buf, size_t n) {
  if (unsigned t = vf::FlakyTick(fd)) {
    const unsigned c = t - 1;
    if (c % 3 == 2) { errno = EINTR; return -1; }
    const size_t most = 1 + (c / 3) % 3;
    if (n > most) n = most;
  }
  return syscall(SYS_write, fd, buf, n);
}
#endif
