// "io" command: sequences of primitive calls on the library's readers and
// writers (C16, C17). Direct mode drives the real classes (typed element
// widths); instrumented mode puts a logging/faulting DynReader/DynWriter under
// a real BoundedReader/BoundedWriter so that the wrapped object's call log and
// position are observable.
#include <limits>
#include <ostream>
#include <streambuf>

#include "ops.h"

namespace vf {

static uint64_t SizeOf(const Json& j) {
  if (j.is_num()) return static_cast<uint64_t>(j.n);
  if (j.is_obj() && j.has("huge")) return 0ull - static_cast<uint64_t>(j.at("huge").num());
  return 0;
}
static void EmitSize(JsonOut& o, const char* key, uint64_t n) {
  o.key(key);
  if (n < (1ull << 31)) o.num(static_cast<long long>(n));
  else o.num(-static_cast<long long>(0ull - n));  // Huge(d) = 2^64 - d is logged as -d
}

// Accessors of the library classes (size / capacity / remaining / empty), logged after every call when the class
// has them; the instrumented DynReader / DynWriter are not library classes and are not reported.
template <typename T, typename = void> struct HasCapacity : std::false_type {};
template <typename T> struct HasCapacity<T, decltype(void(std::declval<const T&>().capacity()))> : std::true_type {};
template <typename T, typename = void> struct HasRemaining : std::false_type {};
template <typename T> struct HasRemaining<T, decltype(void(std::declval<const T&>().remaining()))> : std::true_type {};
template <typename T, typename = void> struct HasEmpty : std::false_type {};
template <typename T> struct HasEmpty<T, decltype(void(std::declval<const T&>().empty()))> : std::true_type {};
template <typename T> static void EmitCap(const T& t, JsonOut& o, std::true_type) { EmitSize(o, "cap", t.capacity()); }
template <typename T> static void EmitCap(const T&, JsonOut&, std::false_type) {}
template <typename T> static void EmitRem(const T& t, JsonOut& o, std::true_type) { EmitSize(o, "rem", t.remaining()); }
template <typename T> static void EmitRem(const T&, JsonOut&, std::false_type) {}
template <typename T> static void EmitEmp(const T& t, JsonOut& o, std::true_type) { o.kv_bool("emp", t.empty()); }
template <typename T> static void EmitEmp(const T&, JsonOut&, std::false_type) {}
template <typename T>
static void EmitAccessors(const T& t, JsonOut& o) {
  if (std::is_same<T, DynReader>::value || std::is_same<T, DynWriter>::value) return;
  if (!HasCapacity<T>::value && !HasRemaining<T>::value && !HasEmpty<T>::value) return;
  o.key("acc");
  o.begin_obj();
  EmitCap(t, o, HasCapacity<T>{});
  EmitRem(t, o, HasRemaining<T>{});
  EmitEmp(t, o, HasEmpty<T>{});
  o.end_obj();
}

template <typename R>
static St TypedRead(R& r, uint8_t* buf, size_t nbytes, int w) {
  switch (w) {
    case 2: return r.Read(reinterpret_cast<uint16_t*>(buf), reinterpret_cast<uint16_t*>(buf) + nbytes / 2);
    case 4: return r.Read(reinterpret_cast<uint32_t*>(buf), reinterpret_cast<uint32_t*>(buf) + nbytes / 4);
    case 8: return r.Read(reinterpret_cast<uint64_t*>(buf), reinterpret_cast<uint64_t*>(buf) + nbytes / 8);
    default: return r.Read(buf, buf + nbytes);
  }
}
template <typename W>
static St TypedWrite(W& w, const uint8_t* buf, size_t nbytes, int width) {
  switch (width) {
    case 2: return w.Write(reinterpret_cast<const uint16_t*>(buf), reinterpret_cast<const uint16_t*>(buf) + nbytes / 2);
    case 4: return w.Write(reinterpret_cast<const uint32_t*>(buf), reinterpret_cast<const uint32_t*>(buf) + nbytes / 4);
    case 8: return w.Write(reinterpret_cast<const uint64_t*>(buf), reinterpret_cast<const uint64_t*>(buf) + nbytes / 8);
    default: return w.Write(buf, buf + nbytes);
  }
}

template <bool kHasSkip>
struct SkipCaller {
  template <typename R> static St skip(R& r, size_t n) { return r.Skip(n); }
  template <typename W> static St skipw(W& w, size_t n, uint8_t pad) { return w.Skip(n, pad); }
};
template <>
struct SkipCaller<false> {
  template <typename R> static St skip(R&, size_t) { return nop::ErrorStatus::DebugError; }
  template <typename W> static St skipw(W&, size_t, uint8_t) { return nop::ErrorStatus::DebugError; }
};
template <bool kBounded>
struct PadCaller {
  template <typename R> static St pad(R& r) { return r.ReadPadding(); }
  template <typename W> static St padw(W& w, uint8_t pad) { return w.WritePadding(pad); }
  template <typename R> static long long size(const R& r) { return static_cast<long long>(r.size()); }
};
template <>
struct PadCaller<false> {
  template <typename R> static St pad(R&) { return nop::ErrorStatus::DebugError; }
  template <typename W> static St padw(W&, uint8_t) { return nop::ErrorStatus::DebugError; }
  template <typename R> static long long size(const R&) { return -1; }
};

// Runs the op list on reader |r|. |inner| (may be null) is the instrumented wrapped reader.
template <typename R, bool kHasSkip, bool kBounded>
static void RunReaderOpsRange(R& r, DynReader* inner, const Json& ops, size_t from, size_t to, JsonOut& o) {
  for (size_t oi = from; oi < to && oi < ops.a.size(); oi++) {
    const Json& opj = ops.a[oi];
    const std::string& op = opj.at("op").s;
    const uint64_t n = SizeOf(opj.at("n"));
    const int w = static_cast<int>(opj.at("w").num(1));
    o.begin_obj();
    o.kv_str("op", op);
    EmitSize(o, "n", n);
    if (w != 1) o.kv_num("w", w);
    const size_t icalls0 = inner ? inner->calls.size() : 0;
    St st;
    std::vector<uint8_t> buf;
    if (op == "ensure") st = r.Ensure(static_cast<size_t>(n));
    else if (op == "r1") { buf.assign(1, 0xEE); st = r.Read(&buf[0]); }
    else if (op == "rn") {
      const size_t nb = n < (1u << 22) ? static_cast<size_t>(n) : (1u << 22);
      buf.assign(nb ? nb : 1, 0xEE);
      st = TypedRead(r, buf.data(), nb, w);
      buf.resize(nb);
    } else if (op == "skip") st = SkipCaller<kHasSkip>::skip(r, static_cast<size_t>(n));
    else if (op == "pad") st = PadCaller<kBounded>::pad(r);
    o.kv_num("st", Code(st));
    if (st && (op == "r1" || op == "rn")) { o.key("out"); o.bytes(buf.data(), buf.size()); }
    if (kBounded) o.kv_num("idx", PadCaller<kBounded>::size(r));
    EmitAccessors(r, o);
    if (inner) {
      EmitN(o, "ipos", inner->pos());
      o.key("icalls");
      std::vector<Call> sub(inner->calls.begin() + static_cast<long>(icalls0), inner->calls.end());
      EmitCalls(o, sub);
    }
    o.end_obj();
  }
}
// thread-local: position in the sequence before which a bounded wrapper is copy-constructed and the copy used from
// then on (passing a BoundedReader / BoundedWriter by value, returning it from a helper): the copy carries the limit AND
// what has been consumed of it, so for the contract the copy is an identity step. (size_t)-1: never.
thread_local size_t g_copy_at = static_cast<size_t>(-1);
template <typename R, bool kBounded>
struct CopyContinue {
  template <typename F> static void run(R& r, size_t n, F f) { f(r, 0, n); }
};
template <typename R>
struct CopyContinue<R, true> {
  template <typename F> static void run(R& r, size_t n, F f) {
    if (g_copy_at >= n) { f(r, 0, n); return; }
    f(r, 0, g_copy_at);
    R copy(r);
    f(copy, g_copy_at, n);
  }
};
template <typename R, bool kHasSkip, bool kBounded>
static void RunReaderOps(R& r, DynReader* inner, const Json& ops, JsonOut& o) {
  o.key("ops");
  o.begin_arr();
  CopyContinue<R, kBounded>::run(r, ops.a.size(), [&](R& x, size_t from, size_t to) {
    RunReaderOpsRange<R, kHasSkip, kBounded>(x, inner, ops, from, to, o);
  });
  o.end_arr();
}

struct CopyAtScope {
  explicit CopyAtScope(const Json& cmd, JsonOut& o) {
    g_copy_at = cmd.has("copyat") ? static_cast<size_t>(cmd.at("copyat").num(0)) : static_cast<size_t>(-1);
    if (cmd.has("copyat")) o.kv_num("copyat", static_cast<long long>(g_copy_at));
  }
  ~CopyAtScope() { g_copy_at = static_cast<size_t>(-1); }
};

static void IoReader(const Json& cmd, JsonOut& o) {
  CopyAtScope copy_scope(cmd, o);
  const std::string kind = cmd.at("kind").s;
  const bool bounded = cmd.at("bounded").truthy();
  const bool direct = cmd.at("direct").truthy();
  const uint64_t limit = SizeOf(cmd.at("limit"));
  std::vector<uint8_t> src = BytesOf(cmd.at("src"));
  o.kv_str("e", "IO");
  o.kv_str("side", "r");
  o.kv_str("kind", (kind == "fdburst" || kind == "fdintr") ? "fd" : kind);
  if (kind == "fdburst") o.kv_bool("burst", true);
  if (kind == "fdintr") o.kv_bool("intr", true);
  o.kv_bool("bounded", bounded);
  o.kv_bool("direct", direct);
  EmitSize(o, "limit", bounded ? limit : 0);
  o.key("src"); o.bytes(src.data(), src.size());
  long fk = 0; int fe = 0;
  if (cmd.has("fault")) { fk = static_cast<long>(cmd.at("fault").at("k").num()); fe = static_cast<int>(cmd.at("fault").at("e").num(16)); }
  o.kv_num("fk", fk);
  o.kv_num("fe", fe);
  const Json& ops = cmd.at("ops");
  using SS = nop::StreamReader<std::stringstream>;
  using FS = nop::StreamReader<std::ifstream>;
  if (!direct) {
    // BoundedReader over an instrumented reader of the given kind
    ReaderSpec spec; spec.kind = kind;
    DynReader inner(spec, src.data(), src.size());
    inner.SetFault(fk, fe);
    const bool has_skip = kind != "fd" && kind != "fdburst" && kind != "fdintr";
    if (bounded) {
      nop::BoundedReader<DynReader> br(&inner, static_cast<size_t>(limit));
      if (has_skip) RunReaderOps<nop::BoundedReader<DynReader>, true, true>(br, &inner, ops, o);
      else RunReaderOps<nop::BoundedReader<DynReader>, true, true>(br, &inner, ops, o);
    } else {
      RunReaderOps<DynReader, true, false>(inner, &inner, ops, o);
    }
    return;
  }
  // direct: real classes, exactly sized heap copy of the source
  std::unique_ptr<uint8_t[]> heap(new uint8_t[src.size() ? src.size() : 1]);
  if (!src.empty()) memcpy(heap.get(), src.data(), src.size());
  std::string path;
  if (kind == "buffer") {
    nop::BufferReader r(heap.get(), src.size());
    if (bounded) { nop::BoundedReader<nop::BufferReader> b(&r, static_cast<size_t>(limit)); RunReaderOps<decltype(b), true, true>(b, nullptr, ops, o); }
    else RunReaderOps<nop::BufferReader, true, false>(r, nullptr, ops, o);
  } else if (kind == "pedantic") {
    nop::PedanticBufferReader r(heap.get(), src.size());
    if (bounded) { nop::BoundedReader<nop::PedanticBufferReader> b(&r, static_cast<size_t>(limit)); RunReaderOps<decltype(b), true, true>(b, nullptr, ops, o); }
    else RunReaderOps<nop::PedanticBufferReader, true, false>(r, nullptr, ops, o);
  } else if (kind == "sstream") {
    SS r(std::string(reinterpret_cast<const char*>(heap.get()), src.size()));
    if (bounded) { nop::BoundedReader<SS> b(&r, static_cast<size_t>(limit)); RunReaderOps<decltype(b), true, true>(b, nullptr, ops, o); }
    else RunReaderOps<SS, true, false>(r, nullptr, ops, o);
  } else if (kind == "fstream") {
    path = TempPath("iofs");
    { std::ofstream out(path, std::ios::binary | std::ios::trunc); out.write(reinterpret_cast<const char*>(heap.get()), static_cast<std::streamsize>(src.size())); }
    {
      FS r(path, std::ios::in | std::ios::binary);
      if (bounded) { nop::BoundedReader<FS> b(&r, static_cast<size_t>(limit)); RunReaderOps<decltype(b), true, true>(b, nullptr, ops, o); }
      else RunReaderOps<FS, true, false>(r, nullptr, ops, o);
    }
    ::unlink(path.c_str());
  } else if (kind == "fdburst") {
    BurstFeeder feeder(heap.get(), src.size(), static_cast<unsigned>(src.size() * 17 + ops.a.size()));
    {
      nop::FdReader r(feeder.read_fd());
      if (bounded) {
        nop::BoundedReader<nop::FdReader> b(&r, static_cast<size_t>(limit));
        RunReaderOps<decltype(b), false, false>(b, nullptr, ops, o);
      } else RunReaderOps<nop::FdReader, false, false>(r, nullptr, ops, o);
    }
  } else if (kind == "fdbad") {
    // FdReader on a descriptor that cannot be read (write-only): read() fails with EBADF -> IOError
    nop::FdReader r(::open("/dev/null", O_WRONLY));
    if (bounded) {
      nop::BoundedReader<nop::FdReader> b(&r, static_cast<size_t>(limit));
      RunReaderOps<decltype(b), false, false>(b, nullptr, ops, o);
    } else RunReaderOps<nop::FdReader, false, false>(r, nullptr, ops, o);
  } else if (kind == "fd" || kind == "fdintr") {
    // fdintr: the descriptor's system calls are interrupted (EINTR) and shortened
    const int rfd = MakeReadFd(heap.get(), src.size());
    FlakyFdScope flaky(rfd, kind == "fdintr");
    nop::FdReader r(rfd);
    if (bounded) {
      // BoundedReader<FdReader>::Skip / ReadPadding do not compile (FdReader has no Skip): only the other calls
      nop::BoundedReader<nop::FdReader> b(&r, static_cast<size_t>(limit));
      RunReaderOps<decltype(b), false, false>(b, nullptr, ops, o);
    } else RunReaderOps<nop::FdReader, false, false>(r, nullptr, ops, o);
  }
}

template <typename W, bool kHasSkip, bool kBounded, bool kHasSize>
struct WriterRunner {
  static long long size(const W& w, std::true_type) { return static_cast<long long>(w.size()); }
  static long long size(const W&, std::false_type) { return -1; }
  // |room| is the number of bytes the *unchecked* BufferWriter can still take (harness guard), or ~0
  static void run(W& w0, DynWriter* inner, const Json& ops, JsonOut& o, bool unchecked, uint64_t cap) {
    uint64_t written = 0;
    o.key("ops");
    o.begin_arr();
    CopyContinue<W, kBounded>::run(w0, ops.a.size(), [&](W& w, size_t from, size_t to) {
      range(w, inner, ops, from, to, o, unchecked, cap, written);
    });
    o.end_arr();
  }
  static void range(W& w, DynWriter* inner, const Json& ops, size_t from, size_t to, JsonOut& o, bool unchecked, uint64_t cap,
                    uint64_t& written) {
    for (size_t oi = from; oi < to && oi < ops.a.size(); oi++) {
      const Json& opj = ops.a[oi];
      const std::string& op = opj.at("op").s;
      const uint64_t n = SizeOf(opj.at("n"));
      const int width = static_cast<int>(opj.at("w").num(1));
      const uint8_t pad = static_cast<uint8_t>(opj.at("pad").num(0));
      const unsigned seed = static_cast<unsigned>(opj.at("seed").num(17));
      o.begin_obj();
      o.kv_str("op", op);
      EmitSize(o, "n", n);
      if (width != 1) o.kv_num("w", width);
      const size_t icalls0 = inner ? inner->calls.size() : 0;
      St st;
      bool guarded = false;
      std::vector<uint8_t> bs;
      if (op == "prepare") st = w.Prepare(static_cast<size_t>(n));
      else if (op == "w1" || op == "wn") {
        const size_t nb = op == "w1" ? 1 : (n < (1u << 22) ? static_cast<size_t>(n) : (1u << 22));
        for (size_t i = 0; i < nb; i++) bs.push_back(static_cast<uint8_t>(seed + 3 * i));
        if (unchecked && nb > cap - (written < cap ? written : cap)) guarded = true;   // caller obligation violated: not forwarded
        else if (op == "w1") st = w.Write(bs[0]);
        else st = TypedWrite(w, bs.data(), nb, width);
        o.key("bs"); o.bytes(bs.data(), bs.size());
      } else if (op == "skipw") {
        o.kv_num("pad", pad);
        if (unchecked && n > cap - (written < cap ? written : cap)) guarded = true;
        else st = SkipCaller<kHasSkip>::skipw(w, static_cast<size_t>(n), pad);
      } else if (op == "padw") {
        o.kv_num("pad", pad);
        st = PadCaller<kBounded>::padw(w, pad);
      }
      if (guarded) o.kv_bool("guarded", true);
      o.kv_num("st", Code(st));
      if (!guarded && st) {
        if (op == "w1" || op == "wn") written += bs.size();
        else if (op == "skipw") written += n;
      }
      if (kHasSize) { o.kv_num("size", size(w, std::integral_constant<bool, kHasSize>{})); if (op == "padw" && st) written = static_cast<uint64_t>(size(w, std::integral_constant<bool, kHasSize>{})); }
      EmitAccessors(w, o);
      if (inner) {
        EmitN(o, "ipos", inner->pos());
        o.key("icalls");
        std::vector<Call> sub(inner->calls.begin() + static_cast<long>(icalls0), inner->calls.end());
        EmitCalls(o, sub);
      }
      o.end_obj();
    }
  }
};

struct LimBuf : std::streambuf {
  std::vector<uint8_t> got;
  size_t cap = 0;
  int_type overflow(int_type ch) override {
    if (traits_type::eq_int_type(ch, traits_type::eof())) return traits_type::not_eof(ch);
    if (got.size() >= cap) return traits_type::eof();
    got.push_back(static_cast<uint8_t>(traits_type::to_char_type(ch)));
    return ch;
  }
  std::streamsize xsputn(const char* p, std::streamsize n) override {
    const size_t room = cap - got.size();
    const size_t take = static_cast<size_t>(n) < room ? static_cast<size_t>(n) : room;
    got.insert(got.end(), reinterpret_cast<const uint8_t*>(p), reinterpret_cast<const uint8_t*>(p) + take);
    return static_cast<std::streamsize>(take);
  }
};
struct LimStream : std::ostream {
  static thread_local size_t cap_for_next;
  LimBuf buf;
  LimStream() : std::ostream(nullptr) { buf.cap = cap_for_next; rdbuf(&buf); }
};
thread_local size_t LimStream::cap_for_next = 0;

static void IoWriter(const Json& cmd, JsonOut& o) {
  CopyAtScope copy_scope(cmd, o);
  const std::string kind = cmd.at("kind").s;
  const bool bounded = cmd.at("bounded").truthy();
  const bool direct = cmd.at("direct").truthy();
  const uint64_t limit = SizeOf(cmd.at("limit"));
  const uint64_t cap = static_cast<uint64_t>(cmd.at("cap").num(64));
  o.kv_str("e", "IO");
  o.kv_str("side", "w");
  o.kv_str("kind", kind == "fdintr" ? "fd" : kind);
  if (kind == "fdintr") o.kv_bool("intr", true);
  o.kv_bool("bounded", bounded);
  o.kv_bool("direct", direct);
  EmitSize(o, "limit", bounded ? limit : 0);
  o.kv_num("cap", static_cast<long long>(cap));
  long fk = 0; int fe = 0;
  if (cmd.has("fault")) { fk = static_cast<long>(cmd.at("fault").at("k").num()); fe = static_cast<int>(cmd.at("fault").at("e").num(16)); }
  o.kv_num("fk", fk);
  o.kv_num("fe", fe);
  const Json& ops = cmd.at("ops");
  using SW = nop::StreamWriter<std::stringstream>;
  if (!direct) {
    Json capj; capj.kind = Json::Num; capj.n = static_cast<long long>(cap);
    Json kj; kj.kind = Json::Str; kj.s = kind;
    WriterSpec spec = ParseWriterKind(kj, capj);
    DynWriter inner(spec);
    inner.SetFault(fk, fe);
    if (bounded) {
      nop::BoundedWriter<DynWriter> bw(&inner, static_cast<size_t>(limit));
      WriterRunner<nop::BoundedWriter<DynWriter>, true, true, true>::run(bw, &inner, ops, o, false, cap);
    } else {
      WriterRunner<DynWriter, true, false, false>::run(inner, &inner, ops, o, false, cap);
    }
    std::vector<uint8_t> out = inner.Output();
    o.key("out"); o.bytes(out.data(), out.size());
    o.kv_bool("guard", inner.GuardIntact());
    if (inner.has_oob) o.kv_bool("oob", true);
    return;
  }
  const size_t guard = 64;
  std::unique_ptr<uint8_t[]> heap(new uint8_t[cap + guard]);
  memset(heap.get(), 0xEE, cap);
  memset(heap.get() + cap, 0xA5, guard);
  std::vector<uint8_t> out;
  bool guard_ok = true;
  auto finish_buf = [&](size_t n) {
    if (n > cap) n = cap;
    out.assign(heap.get(), heap.get() + n);
    for (size_t i = 0; i < guard; i++) if (heap[cap + i] != 0xA5) guard_ok = false;
  };
  if (kind == "buffer") {
    nop::BufferWriter w(heap.get(), cap);
    if (bounded) { nop::BoundedWriter<nop::BufferWriter> b(&w, static_cast<size_t>(limit)); WriterRunner<decltype(b), true, true, true>::run(b, nullptr, ops, o, true, cap); }
    else WriterRunner<nop::BufferWriter, true, false, true>::run(w, nullptr, ops, o, true, cap);
    finish_buf(w.size());
  } else if (kind == "pedantic") {
    nop::PedanticBufferWriter w(heap.get(), cap);
    if (bounded) { nop::BoundedWriter<nop::PedanticBufferWriter> b(&w, static_cast<size_t>(limit)); WriterRunner<decltype(b), true, true, true>::run(b, nullptr, ops, o, false, cap); }
    else WriterRunner<nop::PedanticBufferWriter, true, false, true>::run(w, nullptr, ops, o, false, cap);
    finish_buf(w.size());
  } else if (kind == "constexpr") {
    nop::ConstexprBufferWriter w(heap.get(), cap);
    if (bounded) { nop::BoundedWriter<nop::ConstexprBufferWriter> b(&w, static_cast<size_t>(limit)); WriterRunner<decltype(b), true, true, true>::run(b, nullptr, ops, o, false, cap); }
    else WriterRunner<nop::ConstexprBufferWriter, true, false, true>::run(w, nullptr, ops, o, false, cap);
    finish_buf(w.size());
  } else if (kind == "sstream") {
    SW w;
    if (bounded) { nop::BoundedWriter<SW> b(&w, static_cast<size_t>(limit)); WriterRunner<decltype(b), true, true, true>::run(b, nullptr, ops, o, false, cap); }
    else WriterRunner<SW, true, false, false>::run(w, nullptr, ops, o, false, cap);
    std::string s = w.stream().str();
    out.assign(s.begin(), s.end());
  } else if (kind == "lstream") {
    // StreamWriter over an output stream whose buffer accepts exactly |cap| bytes (the stream goes bad after that)
    LimStream::cap_for_next = static_cast<size_t>(cap);
    nop::StreamWriter<LimStream> w;
    if (bounded) { nop::BoundedWriter<nop::StreamWriter<LimStream>> b(&w, static_cast<size_t>(limit)); WriterRunner<decltype(b), true, true, true>::run(b, nullptr, ops, o, false, cap); }
    else WriterRunner<nop::StreamWriter<LimStream>, true, false, false>::run(w, nullptr, ops, o, false, cap);
    out = w.stream().buf.got;
  } else if (kind == "fdpart") {
    // FdWriter on a non-blocking pipe of one page that has room for exactly |cap| more bytes: writes beyond that fail
    // with EAGAIN, and a block larger than PIPE_BUF may be taken in part
    int pfd[2];
    if (::pipe(pfd) == 0) {
      ::fcntl(pfd[1], F_SETPIPE_SZ, 4096);
      ::fcntl(pfd[1], F_SETFL, ::fcntl(pfd[1], F_GETFL) | O_NONBLOCK);
      ::fcntl(pfd[0], F_SETFL, ::fcntl(pfd[0], F_GETFL) | O_NONBLOCK);
      const size_t room = cap < 4096 ? static_cast<size_t>(cap) : 4096;
      std::vector<uint8_t> fill(4096 - room, 0x5A);
      if (!fill.empty() && ::write(pfd[1], fill.data(), fill.size()) != static_cast<ssize_t>(fill.size())) o.kv_bool("prefill_failed", true);
      {
        nop::FdWriter w(pfd[1]);
        if (bounded) { nop::BoundedWriter<nop::FdWriter> b(&w, static_cast<size_t>(limit)); WriterRunner<decltype(b), false, false, true>::run(b, nullptr, ops, o, false, cap); }
        else WriterRunner<nop::FdWriter, false, false, false>::run(w, nullptr, ops, o, false, cap);
      }
      uint8_t b[8192]; ssize_t r; size_t skip = fill.size();
      while ((r = ::read(pfd[0], b, sizeof b)) > 0) {
        for (ssize_t i = 0; i < r; i++) { if (skip) skip--; else out.push_back(b[i]); }
      }
      ::close(pfd[0]);
    }
  } else if (kind == "fdfull") {
    // FdWriter on a descriptor that accepts nothing (write() fails with ENOSPC)
    nop::FdWriter w(::open("/dev/full", O_WRONLY));
    if (bounded) { nop::BoundedWriter<nop::FdWriter> b(&w, static_cast<size_t>(limit)); WriterRunner<decltype(b), false, false, true>::run(b, nullptr, ops, o, false, cap); }
    else WriterRunner<nop::FdWriter, false, false, false>::run(w, nullptr, ops, o, false, cap);
  } else if (kind == "fd" || kind == "fdintr") {
    std::string path = TempPath("iowfd");
    {
      const int wfd = ::open(path.c_str(), O_WRONLY | O_CREAT | O_TRUNC, 0600);
      FlakyFdScope flaky(wfd, kind == "fdintr");
      nop::FdWriter w(wfd);
      if (bounded) { nop::BoundedWriter<nop::FdWriter> b(&w, static_cast<size_t>(limit)); WriterRunner<decltype(b), false, false, true>::run(b, nullptr, ops, o, false, cap); }
      else WriterRunner<nop::FdWriter, false, false, false>::run(w, nullptr, ops, o, false, cap);
    }
    int fd = ::open(path.c_str(), O_RDONLY);
    if (fd >= 0) { uint8_t b[4096]; ssize_t r; while ((r = ::read(fd, b, sizeof b)) > 0) out.insert(out.end(), b, b + r); ::close(fd); }
    ::unlink(path.c_str());
  }
  o.key("out"); o.bytes(out.data(), out.size());
  o.kv_bool("guard", guard_ok);
}

static void CmdIo(const Json& cmd, JsonOut& o) {
  if (cmd.at("side").s == "w") IoWriter(cmd, o);
  else IoReader(cmd, o);
}
// Entry point for the thread commands (C19): the same call sequences on objects owned by the calling thread
// (memory-backed kinds only: the descriptor kinds use process-wide temporary files).
void RunIoCommand(const Json& cmd, JsonOut& o) { CmdIo(cmd, o); }

static CommandRegistrar r_io("io", CmdIo);

}  // namespace vf
