// DynReader / DynWriter: harness-side classes that satisfy libnop's documented
// Reader / Writer interface, forward every primitive to a *real* library
// reader / writer chosen at run time, and record (op, n, status, position).
// They also implement fault injection (k-th primitive fails with code e), the
// out-of-band handle channel, and an out-of-range guard for unchecked kinds.
#ifndef VF_DYN_H_
#define VF_DYN_H_

#include <fcntl.h>
#include <unistd.h>

#include <cstdint>
#include <cstring>
#include <fstream>
#include <map>
#include <memory>
#include <sstream>
#include <string>
#include <vector>

#include <nop/status.h>
#include <nop/types/handle.h>
#include <nop/utility/bounded_reader.h>
#include <nop/utility/bounded_writer.h>
#include <nop/utility/buffer_reader.h>
#include <nop/utility/buffer_writer.h>
#include <nop/utility/constexpr_buffer_writer.h>
#include <nop/utility/fd_reader.h>
#include <nop/utility/fd_writer.h>
#include <nop/utility/pedantic_buffer_reader.h>
#include <nop/utility/pedantic_buffer_writer.h>
#include <nop/utility/stream_reader.h>
#include <nop/utility/stream_writer.h>

#include "json.h"

namespace vf {

using St = nop::Status<void>;
inline int Code(const St& s) { return s ? 0 : static_cast<int>(s.error()); }
inline St FromCode(int e) {
  if (e == 0) return {};
  return static_cast<nop::ErrorStatus>(e);
}

extern bool g_alloc_on;  // allocation accounting switch (off during harness bookkeeping)
struct AllocPause { bool prev; AllocPause() : prev(g_alloc_on) { g_alloc_on = false; } ~AllocPause() { g_alloc_on = prev; } };
extern std::string g_workdir;  // scratch directory for temp files
std::string TempPath(const char* stem);

struct Call {
  const char* op;
  uint64_t n;
  int st;
  uint64_t pos;  // harness-tracked position before the call
};

inline void EmitN(JsonOut& o, const char* key, uint64_t n) {
  o.key(key);
  if (n < (1ull << 31)) o.num(static_cast<long long>(n));
  else { o.begin_obj(); o.kv_word("w", n, 8); o.end_obj(); }
}

inline void EmitCalls(JsonOut& o, const std::vector<Call>& calls) {
  o.begin_arr();
  for (auto& c : calls) {
    o.begin_obj();
    o.kv_str("op", c.op);
    EmitN(o, "n", c.n);
    o.kv_num("st", c.st);
    EmitN(o, "pos", c.pos);
    o.end_obj();
  }
  o.end_arr();
}

// ---------------------------------------------------------------------------
// Reader implementations (real library classes behind a virtual interface).

// Block transfers keep the element width the codec used: the library's reader / writer classes are templates on the
// element type, and what they do with a count of elements (rather than bytes) is part of what is observed.
template <typename R>
St TypedRead(R& r, void* p, size_t nbytes, size_t width) {
  switch (width) {
    case 2: { auto* b = static_cast<uint16_t*>(p); return r.Read(b, b + nbytes / 2); }
    case 4: { auto* b = static_cast<uint32_t*>(p); return r.Read(b, b + nbytes / 4); }
    case 8: { auto* b = static_cast<uint64_t*>(p); return r.Read(b, b + nbytes / 8); }
    default: { auto* b = static_cast<uint8_t*>(p); return r.Read(b, b + nbytes); }
  }
}
template <typename W>
St TypedWrite(W& w, const void* p, size_t nbytes, size_t width) {
  switch (width) {
    case 2: { auto* b = static_cast<const uint16_t*>(p); return w.Write(b, b + nbytes / 2); }
    case 4: { auto* b = static_cast<const uint32_t*>(p); return w.Write(b, b + nbytes / 4); }
    case 8: { auto* b = static_cast<const uint64_t*>(p); return w.Write(b, b + nbytes / 8); }
    default: { auto* b = static_cast<const uint8_t*>(p); return w.Write(b, b + nbytes); }
  }
}
template <typename T>
constexpr size_t WidthOf() {
  return (sizeof(T) == 2 || sizeof(T) == 4 || sizeof(T) == 8) && alignof(T) >= sizeof(T) ? sizeof(T) : 1;
}

struct RImpl {
  virtual ~RImpl() {}
  virtual St Ensure(size_t n) = 0;
  virtual St Read1(uint8_t* b) = 0;
  virtual St ReadN(void* p, size_t nbytes, size_t width) = 0;
  virtual St Skip(size_t n) = 0;
  virtual bool HasSkip() const { return true; }
  virtual St ReadPadding() { return nop::ErrorStatus::DebugError; }
  virtual bool IsBounded() const { return false; }
  virtual long long ReportedSize() const { return -1; }
};

template <typename R>
struct RDirect : RImpl {
  R r;
  template <typename... A>
  explicit RDirect(A&&... a) : r(std::forward<A>(a)...) {}
  St Ensure(size_t n) override { return r.Ensure(n); }
  St Read1(uint8_t* b) override { return r.Read(b); }
  St ReadN(void* p, size_t n, size_t width) override { return TypedRead(r, p, n, width); }
  St Skip(size_t n) override { return r.Skip(n); }
};

// A user-defined reader over a source that goes on for ever: the given bytes, then zeros. Skip only advances a
// counter, so entries declared with sizes of gigabytes can be skipped (used to place faults in such reads).
struct RSparse : RImpl {
  const uint8_t* data; size_t n; uint64_t pos = 0;
  RSparse(const uint8_t* d, size_t len) : data(d), n(len) {}
  St Ensure(size_t) override { return {}; }
  St Read1(uint8_t* b) override { *b = pos < n ? data[pos] : 0; pos++; return {}; }
  St ReadN(void* p, size_t nbytes, size_t) override {
    uint8_t* b = static_cast<uint8_t*>(p);
    for (size_t i = 0; i < nbytes; i++) b[i] = (pos + i) < n ? data[pos + i] : 0;
    pos += nbytes;
    return {};
  }
  St Skip(size_t k) override { pos += k; return {}; }
};

struct RFd : RImpl {
  nop::FdReader r;
  explicit RFd(int fd) : r(fd) {}
  St Ensure(size_t n) override { return r.Ensure(n); }
  St Read1(uint8_t* b) override { return r.Read(b); }
  St ReadN(void* p, size_t n, size_t width) override { return TypedRead(r, p, n, width); }
  St Skip(size_t) override { return nop::ErrorStatus::DebugError; }
  bool HasSkip() const override { return false; }
};

template <typename Inner, bool kHasSkip = true>
struct RBounded : RImpl {
  Inner inner;
  nop::BoundedReader<Inner> b;
  template <typename... A>
  RBounded(size_t limit, A&&... a) : inner(std::forward<A>(a)...), b(&inner, limit) {}
  St Ensure(size_t n) override { return b.Ensure(n); }
  St Read1(uint8_t* p) override { return b.Read(p); }
  St ReadN(void* p, size_t n, size_t width) override { return TypedRead(b, p, n, width); }
  St Skip(size_t n) override { return SkipImpl(n, std::integral_constant<bool, kHasSkip>{}); }
  St ReadPadding() override { return PadImpl(std::integral_constant<bool, kHasSkip>{}); }
  bool HasSkip() const override { return kHasSkip; }
  bool IsBounded() const override { return true; }
  long long ReportedSize() const override { return static_cast<long long>(b.size()); }

 private:
  St SkipImpl(size_t n, std::true_type) { return b.Skip(n); }
  St SkipImpl(size_t, std::false_type) { return nop::ErrorStatus::DebugError; }
  St PadImpl(std::true_type) { return b.ReadPadding(); }
  St PadImpl(std::false_type) { return nop::ErrorStatus::DebugError; }
};

// Creates an fd from which exactly |n| bytes of |data| can be read and then EOF.
int MakeReadFd(const uint8_t* data, size_t n);

// Descriptors on which the environment interrupts and shortens system calls, as signal handlers installed without
// SA_RESTART and sockets do: every third read() / write() on a marked descriptor fails with EINTR before transferring
// anything, the others transfer at most 1..3 bytes.  (The executor's own read / write symbols sit in front of libc's;
// they are left out of the ThreadSanitizer build, whose interceptors model the synchronisation through pipes.)
void MarkFlakyFd(int fd);
void UnmarkFlakyFd(int fd);
struct FlakyFdScope {
  int fd;
  FlakyFdScope(int f, bool on) : fd(on ? f : -1) { if (fd >= 0) MarkFlakyFd(fd); }
  ~FlakyFdScope() { if (fd >= 0) UnmarkFlakyFd(fd); }
  FlakyFdScope(const FlakyFdScope&) = delete;
  FlakyFdScope& operator=(const FlakyFdScope&) = delete;
};

// A pipe whose producer delivers the data in bursts: the next burst is written only after the reader has
// drained the previous one, so block reads see short reads in the middle of the data (as on sockets / ttys).
class BurstFeeder {
 public:
  BurstFeeder(const uint8_t* data, size_t n, unsigned seed);
  ~BurstFeeder();
  int read_fd() const { return rfd_; }   // ownership passes to the reader

 private:
  struct Impl;
  Impl* impl_;
  int rfd_;
};

struct ReaderSpec {
  std::string kind;          // buffer | pedantic | sstream | fstream | fd
  bool bounded = false;      // wrapped in BoundedReader<kind>
  uint64_t limit = 0;
};

inline ReaderSpec ParseReaderKind(const Json& j) {
  ReaderSpec s;
  if (j.is_str()) { s.kind = j.s; return s; }
  if (j.is_obj() && j.has("bounded")) {
    s.bounded = true;
    s.kind = j.at("bounded").s;
    const Json& l = j.at("limit");
    s.limit = l.is_num() ? static_cast<uint64_t>(l.n) : WordOf(l.is_obj() ? l.at("w") : l);
  }
  return s;
}

class DynReader {
 public:
  // The source bytes are copied into an exactly sized heap block.
  DynReader(const ReaderSpec& spec, const uint8_t* data, size_t n);
  ~DynReader();

  // ---- libnop Reader interface -------------------------------------------
  St Ensure(size_t n) {
    St st;
    if (Pre("ensure", n, &st)) return st;
    st = impl_->Ensure(n);
    return Post(st, 0);
  }
  St Read(uint8_t* byte) {
    St st;
    if (Pre("r1", 1, &st)) { *byte = 0; return st; }
    st = impl_->Read1(byte);
    Observe(1, st);
    return Post(st, 1);
  }
  template <typename T>
  St Read(T* begin, T* end) {
    const size_t nbytes = static_cast<size_t>(end - begin) * sizeof(T);
    St st;
    if (Pre("rn", nbytes, &st)) return st;
    st = impl_->ReadN(static_cast<void*>(begin), nbytes, WidthOf<T>());
    Observe(nbytes, st);
    return Post(st, nbytes);
  }
  St Skip(size_t n) {
    St st;
    if (Pre("skip", n, &st)) return st;
    if (!impl_->HasSkip()) { unsupported = true; return Post(nop::ErrorStatus::DebugError, 0); }
    st = impl_->Skip(n);
    Observe(n, st);
    return Post(st, n);
  }
  template <typename HandleType>
  nop::Status<HandleType> GetHandle(nop::HandleReference ref) {
    St st;
    if (Pre("geth", static_cast<uint64_t>(ref), &st)) return st.error();
    { AllocPause ap; got.push_back(ref); }
    if (ref == nop::kEmptyHandleReference) {
      Post(St{}, 0);
      return HandleType{};
    }
    if (affine_handles) {
      // harness-defined resolution protocol: reference = 2 * value + 7
      if (ref >= 7 && ((ref - 7) % 2) == 0) {
        Post(St{}, 0);
        return HandleType{static_cast<typename HandleType::Type>((ref - 7) / 2)};
      }
      Post(nop::ErrorStatus::InvalidHandleReference, 0);
      return nop::ErrorStatus::InvalidHandleReference;
    }
    auto it = handle_table.find(ref);
    if (it == handle_table.end()) {
      Post(nop::ErrorStatus::InvalidHandleReference, 0);
      return nop::ErrorStatus::InvalidHandleReference;
    }
    Post(St{}, 0);
    return HandleType{static_cast<typename HandleType::Type>(it->second)};
  }
  // harness-only primitive (BoundedReader::ReadPadding), used by io commands
  St ReadPadding() {
    St st;
    if (Pre("pad", 0, &st)) return st;
    uint64_t before = impl_->ReportedSize() >= 0 ? static_cast<uint64_t>(impl_->ReportedSize()) : 0;
    st = impl_->ReadPadding();
    uint64_t adv = 0;
    if (st && impl_->ReportedSize() >= 0) adv = static_cast<uint64_t>(impl_->ReportedSize()) - before;
    return Post(st, adv);
  }

  // ---- harness controls ----------------------------------------------------
  void SetFault(long k, int e) { fault_k_ = k; fault_e_ = e; }
  void ClearLog() { calls.clear(); }
  uint64_t pos() const { return pos_; }
  size_t ncalls() const { return ncalls_; }
  bool failed() const { return failed_; }

  std::vector<Call> calls;
  std::vector<int64_t> got;
  std::map<int64_t, int64_t> handle_table;
  bool affine_handles = false;
  bool log = true;
  bool unsupported = false;
  bool has_oob = false;
  Call oob{};
  bool call_after_failure = false;

 private:
  bool Pre(const char* op, uint64_t n, St* st) {
    ncalls_++;
    cur_ = Call{op, n, 0, pos_};
    if (failed_) call_after_failure = true;
    if (dead_) {  // after an out-of-range request nothing is forwarded any more
      *st = nop::ErrorStatus::ReadLimitReached;
      cur_.st = Code(*st);
      if (log) { AllocPause ap; calls.push_back(cur_); }
      return true;
    }
    if (fault_k_ > 0 && static_cast<long>(ncalls_) == fault_k_) {
      *st = FromCode(fault_e_);
      cur_.st = fault_e_;
      failed_ = true;
      if (log) { AllocPause ap; calls.push_back(cur_); }
      return true;
    }
    return false;
  }
  St Post(St st, uint64_t advance) {
    cur_.st = Code(st);
    if (st) pos_ += advance; else failed_ = true;
    if (log) { AllocPause ap; calls.push_back(cur_); }
    return st;
  }
  // Observation: a buffer-backed reader granted a request for more bytes than
  // its source holds (it delivered memory that is not part of the input).
  void Observe(uint64_t n, const St& st) {
    if (!buffer_backed_ || !st) return;
    uint64_t rem = pos_ <= srclen_ ? srclen_ - pos_ : 0;
    if (n <= rem) return;
    if (!has_oob) { has_oob = true; oob = cur_; }
    dead_ = true;
  }

  std::unique_ptr<RImpl> impl_;
  uint8_t* heap_ = nullptr;
  uint64_t srclen_ = 0;
  uint64_t pos_ = 0;
  size_t ncalls_ = 0;
  long fault_k_ = 0;
  int fault_e_ = 0;
  bool failed_ = false;
  bool buffer_backed_ = false;
  bool dead_ = false;
  Call cur_{};
  std::string tmpfile_;
  std::unique_ptr<BurstFeeder> feeder_;
  int flaky_fd_ = -1;
};

// ---------------------------------------------------------------------------
// Writer implementations.

struct WImpl {
  virtual ~WImpl() {}
  virtual St Prepare(size_t n) = 0;
  virtual St Write1(uint8_t b) = 0;
  virtual St WriteN(const void* p, size_t nbytes, size_t width) = 0;
  virtual St Skip(size_t n, uint8_t pad) = 0;
  virtual bool HasSkip() const { return true; }
  virtual St WritePadding(uint8_t) { return nop::ErrorStatus::DebugError; }
  // number of bytes the real writer reports, or -1 if it has no size()
  virtual long long ReportedSize() const { return -1; }
};

template <typename W, bool kHasSkip = true, bool kHasSize = true>
struct WRef : WImpl {
  W* w;
  explicit WRef(W* p) : w(p) {}
  St Prepare(size_t n) override { return w->Prepare(n); }
  St Write1(uint8_t b) override { return w->Write(b); }
  St WriteN(const void* p, size_t n, size_t width) override { return TypedWrite(*w, p, n, width); }
  St Skip(size_t n, uint8_t pad) override { return SkipImpl(n, pad, std::integral_constant<bool, kHasSkip>{}); }
  bool HasSkip() const override { return kHasSkip; }
  long long ReportedSize() const override { return SizeImpl(std::integral_constant<bool, kHasSize>{}); }

 private:
  St SkipImpl(size_t n, uint8_t pad, std::true_type) { return w->Skip(n, pad); }
  St SkipImpl(size_t, uint8_t, std::false_type) { return nop::ErrorStatus::DebugError; }
  long long SizeImpl(std::true_type) const { return static_cast<long long>(w->size()); }
  long long SizeImpl(std::false_type) const { return -1; }
};

template <typename Inner, bool kHasSkip = true>
struct WBounded : WImpl {
  Inner* inner;  // owned by the DynWriter
  nop::BoundedWriter<Inner> b;
  WBounded(Inner* in, size_t limit) : inner(in), b(in, limit) {}
  St Prepare(size_t n) override { return b.Prepare(n); }
  St Write1(uint8_t v) override { return b.Write(v); }
  St WriteN(const void* p, size_t n, size_t width) override { return TypedWrite(b, p, n, width); }
  St Skip(size_t n, uint8_t pad) override { return SkipImpl(n, pad, std::integral_constant<bool, kHasSkip>{}); }
  St WritePadding(uint8_t pad) override { return PadImpl(pad, std::integral_constant<bool, kHasSkip>{}); }
  bool HasSkip() const override { return kHasSkip; }
  long long ReportedSize() const override { return static_cast<long long>(b.size()); }

 private:
  St SkipImpl(size_t n, uint8_t pad, std::true_type) { return b.Skip(n, pad); }
  St SkipImpl(size_t, uint8_t, std::false_type) { return nop::ErrorStatus::DebugError; }
  St PadImpl(uint8_t pad, std::true_type) { return b.WritePadding(pad); }
  St PadImpl(uint8_t, std::false_type) { return nop::ErrorStatus::DebugError; }
};

struct WriterSpec {
  std::string kind;  // buffer | pedantic | constexpr | sstream | fd
  bool bounded = false;
  uint64_t limit = 0;
  uint64_t cap = 0;      // capacity of buffer kinds
  bool has_cap = false;
};

inline WriterSpec ParseWriterKind(const Json& j, const Json& cap) {
  WriterSpec s;
  if (j.is_str()) s.kind = j.s;
  else if (j.is_obj() && j.has("bounded")) {
    s.bounded = true;
    s.kind = j.at("bounded").s;
    const Json& l = j.at("limit");
    s.limit = l.is_num() ? static_cast<uint64_t>(l.n) : WordOf(l.is_obj() ? l.at("w") : l);
  }
  if (cap.is_num()) { s.cap = static_cast<uint64_t>(cap.n); s.has_cap = true; }
  return s;
}

class DynWriter {
 public:
  explicit DynWriter(const WriterSpec& spec);
  ~DynWriter();

  // ---- libnop Writer interface -------------------------------------------
  St Prepare(size_t n) {
    St st;
    if (Pre("prepare", n, &st)) return st;
    st = impl_->Prepare(n);
    if (st) prepared_ok = true;
    return Post(st, 0);
  }
  St Write(uint8_t byte) {
    St st;
    if (Pre("w1", 1, &st)) return st;
    if (Guard(1)) return Post(St{}, 1);
    st = impl_->Write1(byte);
    if (st) attempted.push_back(byte);
    return Post(st, 1);
  }
  template <typename T>
  St Write(const T* begin, const T* end) {
    const size_t nbytes = static_cast<size_t>(end - begin) * sizeof(T);
    St st;
    if (Pre("wn", nbytes, &st)) return st;
    if (Guard(nbytes)) return Post(St{}, nbytes);
    st = impl_->WriteN(static_cast<const void*>(begin), nbytes, WidthOf<T>());
    if (st) {
      const uint8_t* b = reinterpret_cast<const uint8_t*>(begin);
      attempted.insert(attempted.end(), b, b + nbytes);
    }
    return Post(st, nbytes);
  }
  St Skip(size_t n, uint8_t pad = 0x00) {
    St st;
    if (Pre("skipw", n, &st)) return st;
    if (!impl_->HasSkip()) { unsupported = true; return Post(nop::ErrorStatus::DebugError, 0); }
    if (Guard(n)) return Post(St{}, n);
    st = impl_->Skip(n, pad);
    if (st && n < (1u << 28)) attempted.insert(attempted.end(), n, pad);
    return Post(st, n);
  }
  template <typename HandleType>
  nop::Status<nop::HandleReference> PushHandle(const HandleType& handle) {
    St st;
    if (Pre("pushh", 0, &st)) return st.error();
    pushed.push_back(static_cast<int64_t>(handle.get()));
    int64_t ref;
    // (a writer is free to hand out a reference of its own for an empty handle too: refs_for_empty)
    if (!handle && !(refs_for_empty && next_ref_ < refs.size())) ref = nop::kEmptyHandleReference;
    else if (affine_handles && handle) ref = 2 * static_cast<int64_t>(handle.get()) + 7;
    else if (next_ref_ < refs.size()) ref = refs[next_ref_++];
    else ref = static_cast<int64_t>(auto_ref_++);
    returned.push_back(ref);
    Post(St{}, 0);
    return ref;
  }
  St WritePadding(uint8_t pad = 0x00) {
    St st;
    if (Pre("padw", 0, &st)) return st;
    uint64_t before = impl_->ReportedSize() >= 0 ? static_cast<uint64_t>(impl_->ReportedSize()) : 0;
    st = impl_->WritePadding(pad);
    uint64_t adv = 0;
    if (st && impl_->ReportedSize() >= 0) {
      adv = static_cast<uint64_t>(impl_->ReportedSize()) - before;
      if (adv < (1u << 28)) attempted.insert(attempted.end(), adv, pad);
    }
    return Post(st, adv);
  }

  // ---- harness controls ----------------------------------------------------
  void SetFault(long k, int e) { fault_k_ = k; fault_e_ = e; }
  void ClearLog() { calls.clear(); }
  uint64_t pos() const { return pos_; }
  size_t ncalls() const { return ncalls_; }
  bool failed() const { return failed_; }
  // Bytes actually present in the sink (read back from the real object).
  std::vector<uint8_t> Output();
  bool GuardIntact() const;
  uint64_t cap() const { return cap_; }

  std::vector<Call> calls;
  std::vector<uint8_t> attempted;  // bytes handed to successful primitives
  std::vector<int64_t> pushed, returned, refs;
  bool affine_handles = false;
  bool refs_for_empty = false;
  bool log = true;
  bool unsupported = false;
  bool has_oob = false;
  Call oob{};
  bool prepared_ok = false;
  bool call_after_failure = false;

 private:
  bool Pre(const char* op, uint64_t n, St* st) {
    ncalls_++;
    cur_ = Call{op, n, 0, pos_};
    if (failed_) call_after_failure = true;
    if (dead_) {
      *st = nop::ErrorStatus::WriteLimitReached;
      cur_.st = Code(*st);
      if (log) { AllocPause ap; calls.push_back(cur_); }
      return true;
    }
    if (fault_k_ > 0 && static_cast<long>(ncalls_) == fault_k_) {
      *st = FromCode(fault_e_);
      cur_.st = fault_e_;
      failed_ = true;
      if (log) { AllocPause ap; calls.push_back(cur_); }
      return true;
    }
    return false;
  }
  St Post(St st, uint64_t advance) {
    cur_.st = Code(st);
    if (st) pos_ += advance; else failed_ = true;
    if (log) { AllocPause ap; calls.push_back(cur_); }
    return st;
  }
  bool Guard(uint64_t n) {
    if (!unchecked_) return false;
    uint64_t rem = pos_ <= cap_ ? cap_ - pos_ : 0;
    if (n <= rem) return false;
    if (!has_oob) { has_oob = true; oob = cur_; }
    dead_ = true;
    return true;
  }

  WriterSpec spec_;
  std::unique_ptr<WImpl> impl_;
  // inner objects for bounded kinds (type-erased owners)
  std::unique_ptr<nop::BufferWriter> in_buffer_;
  std::unique_ptr<nop::PedanticBufferWriter> in_pedantic_;
  std::unique_ptr<nop::ConstexprBufferWriter> in_constexpr_;
  std::unique_ptr<nop::StreamWriter<std::stringstream>> in_stream_;
  std::unique_ptr<nop::FdWriter> in_fd_;
  int flaky_fd_ = -1;
  uint8_t* heap_ = nullptr;
  uint64_t cap_ = 0;
  uint64_t guard_ = 0;
  uint64_t pos_ = 0;
  size_t ncalls_ = 0;
  long fault_k_ = 0;
  int fault_e_ = 0;
  bool failed_ = false;
  bool unchecked_ = false;
  bool dead_ = false;
  Call cur_{};
  std::string tmpfile_;
  size_t next_ref_ = 0;
  int64_t auto_ref_ = 0;
};

}  // namespace vf

#endif  // VF_DYN_H_
