// Minimal JSON value, parser and writer for the nopexec executor.
// Numbers are restricted to what commands use: signed 64-bit integers.
#ifndef VF_JSON_H_
#define VF_JSON_H_

#include <cstdint>
#include <cstdio>
#include <cstdlib>
#include <cstring>
#include <map>
#include <memory>
#include <string>
#include <utility>
#include <vector>

namespace vf {

struct Json {
  enum Kind { Null, Bool, Num, Str, Arr, Obj } kind = Null;
  bool b = false;
  long long n = 0;
  std::string s;
  std::vector<Json> a;
  std::vector<std::pair<std::string, Json>> o;

  bool is_null() const { return kind == Null; }
  bool is_arr() const { return kind == Arr; }
  bool is_obj() const { return kind == Obj; }
  bool is_str() const { return kind == Str; }
  bool is_num() const { return kind == Num; }
  const Json* find(const char* key) const {
    if (kind != Obj) return nullptr;
    for (auto& kv : o)
      if (kv.first == key) return &kv.second;
    return nullptr;
  }
  bool has(const char* key) const { return find(key) != nullptr; }
  const Json& at(const char* key) const {
    static Json null_json;
    const Json* j = find(key);
    return j ? *j : null_json;
  }
  const Json& operator[](size_t i) const { return a[i]; }
  size_t size() const { return kind == Arr ? a.size() : o.size(); }
  long long num(long long dflt = 0) const { return kind == Num ? n : dflt; }
  const std::string& str() const { return s; }
  bool truthy() const { return kind == Bool ? b : kind == Num ? n != 0 : kind != Null; }
};

class JsonParser {
 public:
  explicit JsonParser(const std::string& text) : p_(text.data()), e_(text.data() + text.size()) {}
  bool Parse(Json* out) {
    ws();
    if (!value(out)) return false;
    ws();
    return p_ == e_;
  }

 private:
  const char* p_;
  const char* e_;
  void ws() {
    while (p_ < e_ && (*p_ == ' ' || *p_ == '\n' || *p_ == '\t' || *p_ == '\r')) p_++;
  }
  bool lit(const char* w) {
    size_t n = strlen(w);
    if ((size_t)(e_ - p_) < n || memcmp(p_, w, n) != 0) return false;
    p_ += n;
    return true;
  }
  bool value(Json* out) {
    if (p_ >= e_) return false;
    char c = *p_;
    if (c == '{') return object(out);
    if (c == '[') return array(out);
    if (c == '"') {
      out->kind = Json::Str;
      return string(&out->s);
    }
    if (c == 't') { out->kind = Json::Bool; out->b = true; return lit("true"); }
    if (c == 'f') { out->kind = Json::Bool; out->b = false; return lit("false"); }
    if (c == 'n') { out->kind = Json::Null; return lit("null"); }
    if (c == '-' || (c >= '0' && c <= '9')) {
      char* end = nullptr;
      out->kind = Json::Num;
      out->n = strtoll(p_, &end, 10);
      if (end == p_) return false;
      p_ = end;
      return true;
    }
    return false;
  }
  bool string(std::string* s) {
    if (*p_ != '"') return false;
    p_++;
    s->clear();
    while (p_ < e_ && *p_ != '"') {
      if (*p_ == '\\') {
        p_++;
        if (p_ >= e_) return false;
        switch (*p_) {
          case 'n': s->push_back('\n'); break;
          case 't': s->push_back('\t'); break;
          case 'r': s->push_back('\r'); break;
          case 'b': s->push_back('\b'); break;
          case 'f': s->push_back('\f'); break;
          case 'u': {
            if (e_ - p_ < 5) return false;
            char hex[5] = {p_[1], p_[2], p_[3], p_[4], 0};
            s->push_back(static_cast<char>(strtol(hex, nullptr, 16) & 0xff));
            p_ += 4;
            break;
          }
          default: s->push_back(*p_);
        }
        p_++;
      } else {
        s->push_back(*p_++);
      }
    }
    if (p_ >= e_) return false;
    p_++;
    return true;
  }
  bool array(Json* out) {
    out->kind = Json::Arr;
    p_++;
    ws();
    if (p_ < e_ && *p_ == ']') { p_++; return true; }
    while (true) {
      out->a.emplace_back();
      ws();
      if (!value(&out->a.back())) return false;
      ws();
      if (p_ >= e_) return false;
      if (*p_ == ',') { p_++; continue; }
      if (*p_ == ']') { p_++; return true; }
      return false;
    }
  }
  bool object(Json* out) {
    out->kind = Json::Obj;
    p_++;
    ws();
    if (p_ < e_ && *p_ == '}') { p_++; return true; }
    while (true) {
      ws();
      std::string key;
      if (p_ >= e_ || !string(&key)) return false;
      ws();
      if (p_ >= e_ || *p_ != ':') return false;
      p_++;
      ws();
      out->o.emplace_back(key, Json());
      if (!value(&out->o.back().second)) return false;
      ws();
      if (p_ >= e_) return false;
      if (*p_ == ',') { p_++; continue; }
      if (*p_ == '}') { p_++; return true; }
      return false;
    }
  }
};

// Streaming writer that produces compact JSON into a std::string.
class JsonOut {
 public:
  std::string s;
  void raw(const char* t) { s += t; }
  void raw(const std::string& t) { s += t; }
  void comma() {
    if (!s.empty()) {
      char c = s.back();
      if (c != '{' && c != '[' && c != ':' && c != ',') s.push_back(',');
    }
  }
  void key(const char* k) {
    comma();
    s.push_back('"');
    s += k;
    s += "\":";
  }
  void begin_obj() { comma(); s.push_back('{'); }
  void end_obj() { s.push_back('}'); }
  void begin_arr() { comma(); s.push_back('['); }
  void end_arr() { s.push_back(']'); }
  void num(long long v) {
    comma();
    char buf[32];
    snprintf(buf, sizeof buf, "%lld", v);
    s += buf;
  }
  void boolean(bool v) { comma(); s += v ? "true" : "false"; }
  void null() { comma(); s += "null"; }
  void str(const std::string& v) {
    comma();
    s.push_back('"');
    for (unsigned char c : v) {
      if (c == '"' || c == '\\') { s.push_back('\\'); s.push_back(c); }
      else if (c < 0x20 || c >= 0x7f) { char buf[8]; snprintf(buf, sizeof buf, "\\u%04x", c); s += buf; }
      else s.push_back(c);
    }
    s.push_back('"');
  }
  // little-endian byte list of an unsigned 64-bit quantity, width w bytes
  void word(unsigned long long v, int w) {
    begin_arr();
    for (int i = 0; i < w; i++) { num((v >> (8 * i)) & 0xff); }
    end_arr();
  }
  void bytes(const unsigned char* p, size_t n) {
    begin_arr();
    char buf[8];
    for (size_t i = 0; i < n; i++) {
      if (i) s.push_back(',');
      snprintf(buf, sizeof buf, "%u", p[i]);
      s += buf;
    }
    end_arr();
  }
  void kv_num(const char* k, long long v) { key(k); num(v); }
  void kv_str(const char* k, const std::string& v) { key(k); str(v); }
  void kv_bool(const char* k, bool v) { key(k); boolean(v); }
  void kv_word(const char* k, unsigned long long v, int w) { key(k); word(v, w); }
  void kv_raw(const char* k, const std::string& rawjson) { key(k); s += rawjson; }
};

inline void WriteJson(const Json& j, JsonOut& o) {
  switch (j.kind) {
    case Json::Null: o.null(); break;
    case Json::Bool: o.boolean(j.b); break;
    case Json::Num: o.num(j.n); break;
    case Json::Str: o.str(j.s); break;
    case Json::Arr:
      o.begin_arr();
      for (auto& e : j.a) WriteJson(e, o);
      o.end_arr();
      break;
    case Json::Obj:
      o.begin_obj();
      for (auto& kv : j.o) { o.key(kv.first.c_str()); WriteJson(kv.second, o); }
      o.end_obj();
      break;
  }
}

// Reads a little-endian byte list into an unsigned 64-bit quantity.
inline unsigned long long WordOf(const Json& j) {
  unsigned long long v = 0;
  if (j.kind == Json::Num) return static_cast<unsigned long long>(j.n);
  for (size_t i = 0; i < j.a.size() && i < 8; i++)
    v |= static_cast<unsigned long long>(j.a[i].n & 0xff) << (8 * i);
  return v;
}

inline std::vector<unsigned char> BytesOf(const Json& j) {
  std::vector<unsigned char> v;
  v.reserve(j.a.size());
  for (auto& e : j.a) v.push_back(static_cast<unsigned char>(e.n & 0xff));
  return v;
}

}  // namespace vf

#endif  // VF_JSON_H_
