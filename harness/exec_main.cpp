// nopexec: dumb executor. Reads one JSON command per line, runs real libnop
// code, appends one JSON event per command to the trace. Never decides
// pass/fail; expected results exist only in the TLA+ specification.
#include <signal.h>
#include <sys/stat.h>
#include <unistd.h>

#include <cstdio>
#include <cstdlib>
#include <exception>
#include <fstream>
#include <iostream>
#include <new>
#include <string>

#include "ops.h"

namespace vf {

Ledger g_ledger;
unsigned long long g_alloc_total = 0, g_alloc_live = 0, g_alloc_peak = 0;
#if defined(VF_SAN)
bool g_alloc_counted = false;
#else
bool g_alloc_counted = true;
#endif

std::map<std::string, TypeOps>& Registry() {
  static std::map<std::string, TypeOps> r;
  return r;
}
std::map<std::string, CommandFn>& Commands() {
  static std::map<std::string, CommandFn> r;
  return r;
}

static FILE* g_out = nullptr;
static long g_cmd_index = 0;
std::vector<uint8_t> g_last_out;  // output of the last W command

static void EmitLine(const std::string& s) {
  fwrite(s.data(), 1, s.size(), g_out);
  fputc('\n', g_out);
}

// Events for executions that do not end normally. Written with write(2)-level
// primitives only as far as practical; then the process exits.
static void AbnormalEvent(const char* kind, const char* detail) {
  char buf[512];
  int n = snprintf(buf, sizeof buf, "{\"e\":\"%s\",\"idx\":%ld,\"what\":\"%s\"}\n", kind, g_cmd_index, detail);
  if (g_out) {
    fflush(g_out);
    if (write(fileno(g_out), buf, static_cast<size_t>(n)) < 0) {}
  }
}
static void OnSignal(int sig) {
  const char* name = sig == SIGSEGV ? "SIGSEGV" : sig == SIGBUS ? "SIGBUS" : sig == SIGABRT ? "SIGABRT"
                     : sig == SIGFPE ? "SIGFPE" : sig == SIGALRM ? "SIGALRM" : sig == SIGILL ? "SIGILL" : "SIG";
  AbnormalEvent(sig == SIGALRM ? "Timeout" : "Crash", name);
  _exit(sig == SIGALRM ? 76 : 75);
}
static void OnTerminate() {
  const char* what = "terminate";
  static char msg[200];
  if (auto ep = std::current_exception()) {
    try { std::rethrow_exception(ep); }
    catch (const std::exception& e) { snprintf(msg, sizeof msg, "%.150s", e.what()); for (char* p = msg; *p; p++) if (*p == '"' || *p == '\\' || *p < 0x20) *p = ' '; what = msg; }
    catch (...) { what = "unknown exception"; }
  }
  AbnormalEvent("Exc", what);
  _exit(74);
}

}  // namespace vf

#if defined(VF_SAN)
extern "C" void __asan_on_error() { vf::AbnormalEvent("UB", "asan"); }
extern "C" const char* __asan_default_options() { return "detect_leaks=0:exitcode=77:abort_on_error=0:allocator_may_return_null=1:max_allocation_size_mb=4096"; }
extern "C" const char* __ubsan_default_options() { return "halt_on_error=1:exitcode=77:print_stacktrace=0"; }
extern "C" void __ubsan_on_report() { vf::AbnormalEvent("UB", "ubsan"); }
#else
// Allocation accounting (plain build only).
static inline void* CountedAlloc(std::size_t n) {
  if (vf::g_alloc_on) vf::g_alloc_total += n;
  void* p = malloc(n ? n : 1);
  return p;
}
void* operator new(std::size_t n) {
  void* p = CountedAlloc(n);
  if (!p) throw std::bad_alloc();
  return p;
}
void* operator new[](std::size_t n) {
  void* p = CountedAlloc(n);
  if (!p) throw std::bad_alloc();
  return p;
}
void operator delete(void* p) noexcept { free(p); }
void operator delete[](void* p) noexcept { free(p); }
void operator delete(void* p, std::size_t) noexcept { free(p); }
void operator delete[](void* p, std::size_t) noexcept { free(p); }
#endif

namespace vf {

static const TypeOps* Lookup(const std::string& tid, JsonOut& o) {
  auto it = Registry().find(tid);
  if (it == Registry().end()) { o.kv_str("unknown_tid", tid); return nullptr; }
  return &it->second;
}


static void EmitKind(JsonOut& o, const char* key, const std::string& kind, bool bounded, uint64_t limit) {
  o.key(key);
  o.begin_obj();
  o.kv_str("k", (kind == "fdburst" || kind == "fdintr") ? "fd" : kind);      // a bursty / interrupted pipe is still an FdReader
  if (kind == "fdburst") o.kv_bool("burst", true);
  if (kind == "fdintr") o.kv_bool("intr", true);
  o.kv_bool("b", bounded);
  o.kv_num("lim", bounded ? static_cast<long long>(limit < 1073741823ull ? limit : 1073741823ull) : 1073741823ll);
  o.end_obj();
}
static void EmitRK(JsonOut& o, const Json& rkj) { ReaderSpec s = ParseReaderKind(rkj); EmitKind(o, "rk", s.kind, s.bounded, s.limit); }
static void EmitWK(JsonOut& o, const Json& wkj) { Json none; WriterSpec s = ParseWriterKind(wkj, none); EmitKind(o, "wk", s.kind, s.bounded, s.limit); }

static void EmitLedger(JsonOut& o) {
  o.key("ledger");
  o.begin_obj();
  o.kv_num("born", g_ledger.born);
  o.kv_num("died", g_ledger.died);
  o.end_obj();
}

static void EmitWriterState(DynWriter& w, JsonOut& o) {
  std::vector<uint8_t> out = w.Output();
  o.key("out");
  o.bytes(out.data(), out.size());
  o.kv_bool("guard", w.GuardIntact());
  if (w.has_oob) {
    o.key("oob"); o.begin_obj(); o.kv_str("op", w.oob.op); EmitN(o, "n", w.oob.n); EmitN(o, "pos", w.oob.pos); o.end_obj();
  }
  if (w.unsupported) o.kv_bool("unsupported", true);
  if (w.call_after_failure) o.kv_bool("caf", true);
}

static void SetupHandles(const Json& cmd, DynReader& r) {
  if (cmd.at("hmode").is_str() && cmd.at("hmode").s == "affine") r.affine_handles = true;
  if (cmd.has("handles"))
    for (auto& kv : cmd.at("handles").o) r.handle_table[atoll(kv.first.c_str())] = kv.second.num();
}
static void EmitHandleTable(const Json& cmd, JsonOut& o) {
  o.key("ht");
  o.begin_arr();
  if (cmd.has("handles"))
    for (auto& kv : cmd.at("handles").o) {
      o.begin_arr();
      o.word(static_cast<unsigned long long>(atoll(kv.first.c_str())), 8);
      o.word(static_cast<unsigned long long>(kv.second.num()), 8);
      o.end_arr();
    }
  o.end_arr();
}

static std::vector<uint8_t> ResolveSrc(const Json& cmd) {
  std::vector<uint8_t> b;
  const Json& src = cmd.at("src");
  if (src.is_str() && src.s == "last") b = g_last_out;
  else if (src.is_obj()) b = BytesOf(src.at("b"));
  else if (src.is_arr()) b = BytesOf(src);
  if (cmd.has("mut")) {
    for (auto& m : cmd.at("mut").a) {
      const std::string& op = m.at("op").s;
      size_t len = b.size();
      if (op == "set" && len) b[static_cast<size_t>(m.at("at").num()) % len] = static_cast<uint8_t>(m.at("val").num());
      else if (op == "xor" && len) b[static_cast<size_t>(m.at("at").num()) % len] ^= static_cast<uint8_t>(m.at("val").num());
      else if (op == "add" && len) b[static_cast<size_t>(m.at("at").num()) % len] = static_cast<uint8_t>(b[static_cast<size_t>(m.at("at").num()) % len] + m.at("val").num());
      else if (op == "trunc") b.resize(len ? static_cast<size_t>(m.at("k").num()) % (len + 1) : 0);
      else if (op == "append") { auto x = BytesOf(m.at("b")); b.insert(b.end(), x.begin(), x.end()); }
      else if (op == "insert") { auto x = BytesOf(m.at("b")); size_t at = len ? static_cast<size_t>(m.at("at").num()) % (len + 1) : 0; b.insert(b.begin() + static_cast<long>(at), x.begin(), x.end()); }
      else if (op == "erase" && len) { size_t at = static_cast<size_t>(m.at("at").num()) % len; size_t n = static_cast<size_t>(m.at("n").num(1)); if (at + n > len) n = len - at; b.erase(b.begin() + static_cast<long>(at), b.begin() + static_cast<long>(at + n)); }
    }
  }
  if (cmd.has("cut") && cmd.at("cut").is_num()) {
    size_t k = static_cast<size_t>(cmd.at("cut").num());
    if (k < b.size()) b.resize(k);
  }
  return b;
}

// {"c":"w","wk":WK,"cap":N?,"items":[{"tid":T,"v":V}...],"refs":[words]?,"fault":{"k":K,"e":E}?}
static void CmdW(const Json& cmd, JsonOut& o) {
  WriterSpec spec = ParseWriterKind(cmd.at("wk"), cmd.at("cap"));
  o.kv_str("e", "W");
  EmitWK(o, cmd.at("wk"));
  if (spec.has_cap) o.kv_num("cap", static_cast<long long>(spec.cap));
  {
    DynWriter w(spec);
    if (cmd.has("nolog")) w.log = false;
    if (cmd.has("refs")) for (auto& r : cmd.at("refs").a) w.refs.push_back(static_cast<int64_t>(WordOf(r)));
    if (cmd.at("hmode").is_str() && cmd.at("hmode").s == "affine") w.affine_handles = true;
    if (cmd.at("hmode").is_str() && cmd.at("hmode").s == "refs-always") w.refs_for_empty = true;
    if (cmd.has("fault")) {
      w.SetFault(static_cast<long>(cmd.at("fault").at("k").num()), static_cast<int>(cmd.at("fault").at("e").num(16)));
      o.key("fault"); WriteJson(cmd.at("fault"), o);
    }
    if (cmd.has("lean")) {
      // a large value that only serves as the source of a later command: written, not echoed
      o.kv_bool("lean", true);
      JsonOut scratch;
      scratch.begin_arr();
      for (auto& item : cmd.at("items").a) {
        scratch.begin_obj();
        if (const TypeOps* ops = Lookup(item.at("tid").s, scratch)) ops->write(item.at("v"), w, scratch);
        scratch.end_obj();
      }
      scratch.end_arr();
      o.key("items"); o.begin_arr(); o.end_arr();
      o.key("out"); o.bytes(nullptr, 0);
      o.kv_num("outlen", static_cast<long long>(w.Output().size()));
      g_last_out = w.Output();
      EmitLedger(o);
      return;
    }
    o.key("items");
    o.begin_arr();
    for (auto& item : cmd.at("items").a) {
      o.begin_obj();
      const std::string& tid = item.at("tid").s;
      o.kv_str("tid", tid);
      if (const TypeOps* ops = Lookup(tid, o)) ops->write(item.at("v"), w, o);
      o.end_obj();
    }
    o.end_arr();
    EmitWriterState(w, o);
    g_last_out = w.Output();
  }
  EmitLedger(o);
}

// {"c":"r","rk":RK,"src":"last"|{"b":[..]},"cut":K?,"mut":[..]?,"items":[{"tid":T,"prior":..,"inspect":..,"reread":[..]}],
//  "fault":{"k","e"}?,"handles":{"ref":value}?}
static void CmdR(const Json& cmd, JsonOut& o) {
  ReaderSpec spec = ParseReaderKind(cmd.at("rk"));
  std::vector<uint8_t> src = ResolveSrc(cmd);
  o.kv_str("e", "R");
  EmitRK(o, cmd.at("rk"));
  o.key("src"); o.bytes(src.data(), src.size());
  if (cmd.has("cut")) { o.key("cut"); WriteJson(cmd.at("cut"), o); }
  if (cmd.has("tag")) { o.key("tag"); WriteJson(cmd.at("tag"), o); }
  EmitHandleTable(cmd, o);
  {
    DynReader r(spec, src.data(), src.size());
    if (cmd.has("nolog")) r.log = false;
    SetupHandles(cmd, r);
    if (cmd.has("fault")) {
      r.SetFault(static_cast<long>(cmd.at("fault").at("k").num()), static_cast<int>(cmd.at("fault").at("e").num(16)));
      o.key("fault"); WriteJson(cmd.at("fault"), o);
    }
    o.key("items");
    o.begin_arr();
    for (auto& item : cmd.at("items").a) {
      o.begin_obj();
      const std::string& tid = item.at("tid").s;
      o.kv_str("tid", tid);
      if (item.has("prior")) { o.key("prior"); WriteJson(item.at("prior"), o); }
      if (const TypeOps* ops = Lookup(tid, o)) ops->read(item, r, o);
      if (r.has_oob) {
        o.key("oob"); o.begin_obj(); o.kv_str("op", r.oob.op); EmitN(o, "n", r.oob.n); EmitN(o, "pos", r.oob.pos); o.end_obj();
      }
      o.end_obj();
      if (r.has_oob) break;
    }
    o.end_arr();
    if (r.unsupported) o.kv_bool("unsupported", true);
    if (r.call_after_failure) o.kv_bool("caf", true);
  }
  EmitLedger(o);
}

// {"c":"rcuts","tid":T,"rks":[RK...],"src":...}: reads every strict prefix through every listed reader kind.
static void CmdRCuts(const Json& cmd, JsonOut& o) {
  std::vector<uint8_t> src = ResolveSrc(cmd);
  const std::string& tid = cmd.at("tid").s;
  o.kv_str("e", "RC");
  o.kv_str("tid", tid);
  // "lean": the bytes are not echoed (large inputs); "stride": s samples the cut positions of a large input - the
  // first and last 80 positions and every s-th in between
  const bool lean = cmd.has("lean");
  const size_t stride = cmd.has("stride") ? static_cast<size_t>(cmd.at("stride").num(1)) : 1;
  if (lean) { o.key("src"); o.bytes(src.data(), 0); o.kv_num("srclen", static_cast<long long>(src.size())); }
  else { o.key("src"); o.bytes(src.data(), src.size()); }
  if (cmd.has("wtid")) o.kv_str("wtid", cmd.at("wtid").s);
  const TypeOps* ops = Lookup(tid, o);
  o.key("runs");
  o.begin_arr();
  if (ops) {
    Json fresh;
    fresh.kind = Json::Obj;
    // "populated": every cut is also read into a destination that already holds the complete value (decoded from the
    // whole encoding just before): a reused message object, the usual way a receive loop is written
    Json populated = fresh;
    {
      Json prior; prior.kind = Json::Obj;
      Json kind; kind.kind = Json::Str; kind.s = "read";
      Json bytes; bytes.kind = Json::Arr;
      for (uint8_t b : src) { Json n; n.kind = Json::Num; n.n = b; bytes.a.push_back(n); }
      prior.o.emplace_back("kind", kind);
      prior.o.emplace_back("b", bytes);
      populated.o.emplace_back("prior", prior);
    }
    const bool with_populated = cmd.has("populated") && src.size() <= 4096;
    for (auto& rkj : cmd.at("rks").a) {
      ReaderSpec base = ParseReaderKind(rkj);
      for (int pass = 0; pass < (with_populated && !base.bounded && (base.kind == "pedantic" || base.kind == "sstream") ? 2 : 1); pass++) {
        const Json& item = pass ? populated : fresh;
        o.begin_obj();
        EmitRK(o, rkj);
        if (pass) o.kv_bool("populated", true);
        o.key("cuts");
        o.begin_arr();
        for (size_t k = 0; k < src.size(); k++) {
          // a bursty pipe needs a feeder thread per run: only short encodings are swept through it
          if (base.kind == "fdburst" && src.size() > 24) break;
          if (stride > 1 && k >= 80 && k + 80 < src.size() && (k % stride) != 0) continue;
          ReaderSpec spec = base;
          DynReader r(spec, src.data(), k);
          r.log = false;
          SetupHandles(cmd, r);
          JsonOut tmp;
          tmp.begin_obj();
          ops->read(item, r, tmp);
          tmp.end_obj();
          // keep only the status (and any oob / unsupported marker)
          Json parsed;
          JsonParser(tmp.s).Parse(&parsed);
          o.begin_obj();
          o.kv_num("k", static_cast<long long>(k));
          o.kv_num("st", parsed.at("st").num());
          if (r.has_oob) o.kv_bool("oob", true);
          if (r.unsupported) o.kv_bool("unsupported", true);
          o.end_obj();
        }
        o.end_arr();
        o.end_obj();
      }
    }
  }
  o.end_arr();
  EmitLedger(o);
}

// {"c":"rfaults","tid":T,"rk":RK,"src":...,"codes":[..]}: a fault at every primitive call position.
static void CmdRFaults(const Json& cmd, JsonOut& o) {
  std::vector<uint8_t> src = ResolveSrc(cmd);
  const std::string& tid = cmd.at("tid").s;
  ReaderSpec spec = ParseReaderKind(cmd.at("rk"));
  o.kv_str("e", "RF");
  o.kv_str("tid", tid);
  EmitRK(o, cmd.at("rk"));
  const bool lean = cmd.has("lean");     // large inputs: neither the bytes nor the decoded value are echoed
  o.key("src"); o.bytes(src.data(), lean ? 0 : src.size());
  const TypeOps* ops = Lookup(tid, o);
  if (!ops) return;
  Json item;
  item.kind = Json::Obj;
  size_t ncalls = 0;
  {
    DynReader r(spec, src.data(), src.size());
    SetupHandles(cmd, r);
    JsonOut tmp;
    tmp.begin_obj();
    ops->read(item, r, tmp);
    tmp.end_obj();
    ncalls = r.ncalls();
    if (!lean) { o.key("base"); o.raw(tmp.s); }
  }
  o.key("runs");
  o.begin_arr();
  for (size_t k = 1; k <= ncalls; k++) {
    for (auto& cj : cmd.at("codes").a) {
      DynReader r(spec, src.data(), src.size());
      SetupHandles(cmd, r);
      r.SetFault(static_cast<long>(k), static_cast<int>(cj.num()));
      JsonOut tmp;
      tmp.begin_obj();
      ops->read(item, r, tmp);
      tmp.end_obj();
      Json parsed;
      JsonParser(tmp.s).Parse(&parsed);
      o.begin_obj();
      o.kv_num("k", static_cast<long long>(k));
      o.kv_num("code", cj.num());
      o.kv_num("st", parsed.at("st").num());
      o.kv_num("ncalls", static_cast<long long>(r.ncalls()));
      o.kv_bool("caf", r.call_after_failure);
      o.kv_str("op", r.calls.empty() ? "" : r.calls.back().op);
      o.end_obj();
    }
  }
  o.end_arr();
  EmitLedger(o);
}

// {"c":"wfaults","tid":T,"v":V,"wk":WK,"cap":N?,"codes":[..]}
static void CmdWFaults(const Json& cmd, JsonOut& o) {
  const std::string& tid = cmd.at("tid").s;
  WriterSpec spec = ParseWriterKind(cmd.at("wk"), cmd.at("cap"));
  o.kv_str("e", "WF");
  o.kv_str("tid", tid);
  EmitWK(o, cmd.at("wk"));
  const TypeOps* ops = Lookup(tid, o);
  if (!ops) return;
  size_t ncalls = 0;
  {
    DynWriter w(spec);
    JsonOut tmp;
    tmp.begin_obj();
    ops->write(cmd.at("v"), w, tmp);
    tmp.end_obj();
    ncalls = w.ncalls();
    o.key("base");
    o.raw(tmp.s);
    std::vector<uint8_t> out = w.Output();
    o.key("out"); o.bytes(out.data(), out.size());
  }
  o.key("runs");
  o.begin_arr();
  for (size_t k = 1; k <= ncalls; k++) {
    for (auto& cj : cmd.at("codes").a) {
      DynWriter w(spec);
      w.SetFault(static_cast<long>(k), static_cast<int>(cj.num()));
      JsonOut tmp;
      tmp.begin_obj();
      ops->write(cmd.at("v"), w, tmp);
      tmp.end_obj();
      Json parsed;
      JsonParser(tmp.s).Parse(&parsed);
      o.begin_obj();
      o.kv_num("k", static_cast<long long>(k));
      o.kv_num("code", cj.num());
      o.kv_num("st", parsed.at("st").num());
      o.kv_num("ncalls", static_cast<long long>(w.ncalls()));
      o.kv_bool("caf", w.call_after_failure);
      o.kv_str("op", w.calls.empty() ? "" : w.calls.back().op);
      o.key("out"); o.bytes(w.attempted.data(), w.attempted.size());
      o.end_obj();
    }
  }
  o.end_arr();
  EmitLedger(o);
}

// {"c":"wcaps","tid":T,"v":V,"wks":[WK...],"extra":E?}: every capacity 0..GetSize+1(+E) on every listed buffer writer.
static void CmdWCaps(const Json& cmd, JsonOut& o) {
  const std::string& tid = cmd.at("tid").s;
  o.kv_str("e", "WC");
  o.kv_str("tid", tid);
  if (cmd.has("refs")) o.kv_bool("customrefs", true);
  const TypeOps* ops = Lookup(tid, o);
  if (!ops) return;
  unsigned long long size = 0;
  {
    JsonOut tmp;
    tmp.begin_obj();
    ops->size(cmd.at("v"), tmp);
    tmp.end_obj();
    Json parsed;
    JsonParser(tmp.s).Parse(&parsed);
    size = WordOf(parsed.at("size"));
    o.kv_word("size", size, 8);
  }
  {  // reference run with ample room
    WriterSpec spec;
    spec.kind = "pedantic";
    spec.cap = size + 4096; spec.has_cap = true;
    DynWriter w(spec);
    w.log = false;
    // the references the writer's out-of-band channel hands back for pushed handles (their size on the wire varies)
    if (cmd.has("refs")) for (auto& r : cmd.at("refs").a) w.refs.push_back(static_cast<int64_t>(WordOf(r)));
    if (cmd.at("hmode").is_str() && cmd.at("hmode").s == "refs-always") w.refs_for_empty = true;
    o.key("ref"); o.begin_obj();
    ops->write(cmd.at("v"), w, o);
    EmitWriterState(w, o);
    o.end_obj();
  }
  if (size > (1u << 16)) { o.kv_bool("toolarge", true); return; }
  const unsigned long long extra = static_cast<unsigned long long>(cmd.at("extra").num(1));
  o.key("runs");
  o.begin_arr();
  for (auto& wkj : cmd.at("wks").a) {
    for (unsigned long long cap = 0; cap <= size + extra; cap++) {
      Json capj; capj.kind = Json::Num;
      WriterSpec spec;
      const bool limit_mode = wkj.is_obj() && wkj.has("bounded") && !wkj.has("limit");
      if (limit_mode) {
        // the bound is the capacity under test, the inner buffer has ample room
        spec.kind = wkj.at("bounded").s; spec.bounded = true; spec.limit = cap;
        spec.cap = size + 64; spec.has_cap = true;
      } else {
        capj.n = static_cast<long long>(cap);
        spec = ParseWriterKind(wkj, capj);
      }
      DynWriter w(spec);
      w.log = false;
      if (cmd.has("refs")) for (auto& r : cmd.at("refs").a) w.refs.push_back(static_cast<int64_t>(WordOf(r)));
      if (cmd.at("hmode").is_str() && cmd.at("hmode").s == "refs-always") w.refs_for_empty = true;
      JsonOut tmp;
      tmp.begin_obj();
      ops->write(cmd.at("v"), w, tmp);
      tmp.end_obj();
      Json parsed;
      JsonParser(tmp.s).Parse(&parsed);
      o.begin_obj();
      EmitKind(o, "wk", spec.kind, spec.bounded, spec.limit);
      o.kv_bool("limmode", limit_mode);
      o.kv_num("cap", static_cast<long long>(cap));
      o.kv_num("st", parsed.at("st").num());
      EmitWriterState(w, o);
      o.end_obj();
    }
  }
  o.end_arr();
}

static void CmdSize(const Json& cmd, JsonOut& o) {
  const std::string& tid = cmd.at("tid").s;
  o.kv_str("e", "S");
  o.kv_str("tid", tid);
  if (const TypeOps* ops = Lookup(tid, o)) ops->size(cmd.at("v"), o);
}

static void CmdEcho(const Json& cmd, JsonOut& o) {
  const std::string& tid = cmd.at("tid").s;
  o.kv_str("e", "Echo");
  o.kv_str("tid", tid);
  o.key("in"); WriteJson(cmd.at("v"), o);
  if (const TypeOps* ops = Lookup(tid, o)) ops->echo(cmd.at("v"), o);
}

static void CmdFacts(const Json&, JsonOut& o) {
  o.kv_str("e", "Facts");
  o.kv_num("sizeof_size_t", sizeof(size_t));
  o.kv_num("sizeof_wchar_t", sizeof(wchar_t));
  o.kv_bool("char_signed", std::is_signed<char>::value);
  const uint32_t probe = 0x01020304;
  o.kv_bool("little_endian", *reinterpret_cast<const uint8_t*>(&probe) == 4);
  o.kv_num("sizeof_nop_sizetype", sizeof(nop::SizeType));
  o.kv_bool("alloc_counted", g_alloc_counted);
  o.key("tids"); o.begin_arr();
  for (auto& kv : Registry()) o.str(kv.first);
  o.end_arr();
}

static CommandRegistrar r_w("w", CmdW), r_r("r", CmdR), r_rc("rcuts", CmdRCuts), r_rf("rfaults", CmdRFaults),
    r_wf("wfaults", CmdWFaults), r_wc("wcaps", CmdWCaps), r_s("size", CmdSize), r_e("echo", CmdEcho),
    r_f("facts", CmdFacts);

}  // namespace vf

int main(int argc, char** argv) {
  using namespace vf;
  const char* in_path = nullptr;
  const char* out_path = nullptr;
  long skip = 0;
  int per_cmd_timeout = 20;
  for (int i = 1; i < argc; i++) {
    std::string a = argv[i];
    if (a == "--in" && i + 1 < argc) in_path = argv[++i];
    else if (a == "--out" && i + 1 < argc) out_path = argv[++i];
    else if (a == "--skip" && i + 1 < argc) skip = atol(argv[++i]);
    else if (a == "--work" && i + 1 < argc) g_workdir = argv[++i];
    else if (a == "--timeout" && i + 1 < argc) per_cmd_timeout = atoi(argv[++i]);
  }
  if (!in_path || !out_path) {
    fprintf(stderr, "usage: nopexec --in cmds.ndjson --out trace.ndjson [--skip N] [--work DIR]\n");
    return 2;
  }
  g_out = fopen(out_path, skip ? "a" : "w");
  if (!g_out) { perror("open out"); return 2; }
  signal(SIGPIPE, SIG_IGN);
  signal(SIGSEGV, OnSignal);
  signal(SIGBUS, OnSignal);
  signal(SIGABRT, OnSignal);
  signal(SIGFPE, OnSignal);
  signal(SIGILL, OnSignal);
  signal(SIGALRM, OnSignal);
  std::set_terminate(OnTerminate);

  std::ifstream in(in_path);
  std::string line;
  std::string pending_w;
  long idx = -1;
  while (std::getline(in, line)) {
    if (line.empty()) continue;
    idx++;
    if (idx < skip) {
      // remember the last W command so that "src":"last" still works after a restart
      if (line.find("\"c\":\"w\"") != std::string::npos) pending_w = line;
      else if (line.find("\"c\":\"reset\"") != std::string::npos) pending_w.clear();
      continue;
    }
    if (!pending_w.empty()) {
      Json wcmd;
      JsonOut sink;
      sink.begin_obj();
      if (JsonParser(pending_w).Parse(&wcmd)) Commands()["w"](wcmd, sink);
      pending_w.clear();
    }
    g_cmd_index = idx;
    Json cmd;
    JsonOut o;
    o.begin_obj();
    o.kv_num("idx", idx);
    if (!JsonParser(line).Parse(&cmd)) {
      o.kv_str("e", "BadCmd");
    } else {
      const std::string& c = cmd.at("c").s;
      if (cmd.has("id")) { o.key("id"); WriteJson(cmd.at("id"), o); }
      if (c == "reset") {
        o.kv_str("e", "Reset");
        g_last_out.clear();
      } else {
        auto it = Commands().find(c);
        if (it == Commands().end()) o.kv_str("e", "BadCmd");
        else {
          alarm(static_cast<unsigned>(per_cmd_timeout));
          it->second(cmd, o);
          alarm(0);
        }
      }
    }
    o.end_obj();
    EmitLine(o.s);
  }
  fclose(g_out);
  return 0;
}
