// Per-type operations of the executor: every pool type T instantiates these
// templates once, against DynReader / DynWriter.
#ifndef VF_OPS_H_
#define VF_OPS_H_

#include <map>
#include <string>

#include <nop/serializer.h>

#include "abs.h"
#include "dyn.h"
#include "json.h"

namespace vf {

// Lifetime ledger of Tracked element types and allocation counters.
struct Ledger {
  long long born = 0, died = 0;
  long long alive() const { return born - died; }
};
extern Ledger g_ledger;
extern unsigned long long g_alloc_total, g_alloc_live, g_alloc_peak;
extern bool g_alloc_counted;  // false in sanitizer builds
extern std::vector<uint8_t> g_last_out;  // output of the last W command

struct TypeOps {
  // Converts |v| to a T, reports GetSize and writes it through |w|.
  void (*write)(const Json& v, DynWriter& w, JsonOut& o);
  // Reads one T from |r|; |item| may carry prior / then directives.
  void (*read)(const Json& item, DynReader& r, JsonOut& o);
  // GetSize only.
  void (*size)(const Json& v, JsonOut& o);
  // value -> T -> value (checks the projection itself)
  void (*echo)(const Json& v, JsonOut& o);
};

std::map<std::string, TypeOps>& Registry();

template <typename T>
void WriteOp(const Json& v, DynWriter& w, JsonOut& o) {
  Holder<T> h;
  if (!Abs<T>::from(v, h.ref())) { o.kv_bool("badv", true); return; }
  o.key("v");
  Abs<T>::to(h.ref(), o);
  nop::Serializer<DynWriter*> ser{&w};
  const std::size_t size = ser.GetSize(h.ref());
  o.kv_word("size", size, 8);
  const size_t mark = w.attempted.size();
  const size_t pmark = w.pushed.size();
  w.ClearLog();
  auto st = ser.Write(h.ref());
  o.kv_num("st", Code(st));
  o.kv_num("n", static_cast<long long>(w.attempted.size() - mark));
  if (w.log) { o.key("calls"); EmitCalls(o, w.calls); }
  if (w.pushed.size() > pmark) {
    o.key("pushed"); o.begin_arr();
    for (size_t i = pmark; i < w.pushed.size(); i++) o.word(static_cast<unsigned long long>(w.pushed[i]), 8);
    o.end_arr();
    o.key("refs"); o.begin_arr();
    for (size_t i = pmark; i < w.returned.size(); i++) o.word(static_cast<unsigned long long>(w.returned[i]), 8);
    o.end_arr();
  }
}

template <typename T>
void SizeOp(const Json& v, JsonOut& o) {
  Holder<T> h;
  if (!Abs<T>::from(v, h.ref())) { o.kv_bool("badv", true); return; }
  nop::Serializer<DynWriter*> ser{nullptr};
  o.kv_word("size", ser.GetSize(h.ref()), 8);
}

template <typename T>
void EchoOp(const Json& v, JsonOut& o) {
  Holder<T> h;
  if (!Abs<T>::from(v, h.ref())) { o.kv_bool("badv", true); return; }
  o.key("v");
  Abs<T>::to(h.ref(), o);
}

// Applies a "prior" directive to the destination before the read under test.
template <typename T>
void ApplyPrior(const Json& prior, Holder<T>& h, JsonOut& o) {
  const std::string& kind = prior.at("kind").s;
  if (kind == "value") {
    if (!Abs<T>::from(prior.at("v"), h.ref())) o.kv_bool("badprior", true);
  } else if (kind == "read" || kind == "failread") {
    std::vector<uint8_t> b = prior.at("b").is_str() ? g_last_out : BytesOf(prior.at("b"));
    ReaderSpec spec;
    spec.kind = "pedantic";
    DynReader pr(spec, b.data(), b.size());
    pr.affine_handles = true;
    pr.log = false;
    if (kind == "failread") pr.SetFault(static_cast<long>(prior.at("k").num()), static_cast<int>(prior.at("e").num(16)));
    if (prior.has("handles"))
      for (auto& kv : prior.at("handles").o) pr.handle_table[atoll(kv.first.c_str())] = kv.second.num();
    nop::Deserializer<DynReader*> d{&pr};
    auto st = d.Read(&h.ref());
    o.kv_num("prior_st", Code(st));
  }
}

template <typename T>
void ReadOp(const Json& item, DynReader& r, JsonOut& o) {
  Holder<T> h;
  if (item.has("prior")) ApplyPrior<T>(item.at("prior"), h, o);
  const uint64_t pos0 = r.pos();
  const size_t gmark = r.got.size();
  r.ClearLog();
  const unsigned long long a0 = g_alloc_total;
  nop::Deserializer<DynReader*> d{&r};
  auto st = d.Read(&h.ref());
  const unsigned long long a1 = g_alloc_total;
  o.kv_num("st", Code(st));
  EmitN(o, "used", r.pos() - pos0);
  if (g_alloc_counted) EmitN(o, "alloc", a1 - a0);
  if (st || item.at("inspect").truthy()) { o.key("v"); Abs<T>::to(h.ref(), o); }
  if (r.log) { o.key("calls"); EmitCalls(o, r.calls); }
  if (r.got.size() > gmark) {
    o.key("got"); o.begin_arr();
    for (size_t i = gmark; i < r.got.size(); i++) o.word(static_cast<unsigned long long>(r.got[i]), 8);
    o.end_arr();
  }
  if (item.has("reread")) {
    // read a second encoding into the same (possibly failed) destination
    std::vector<uint8_t> b = item.at("reread").is_str() ? g_last_out : BytesOf(item.at("reread"));
    ReaderSpec spec;
    spec.kind = "pedantic";
    DynReader rr(spec, b.data(), b.size());
    rr.log = false;
    rr.handle_table = r.handle_table;
    rr.affine_handles = r.affine_handles;
    nop::Deserializer<DynReader*> d2{&rr};
    auto st2 = d2.Read(&h.ref());
    o.kv_num("st2", Code(st2));
    EmitN(o, "used2", rr.pos());
    o.key("v2");
    Abs<T>::to(h.ref(), o);
  }
}

template <typename T>
TypeOps MakeOps() {
  return TypeOps{&WriteOp<T>, &ReadOp<T>, &SizeOp<T>, &EchoOp<T>};
}

struct Registrar {
  Registrar(const char* tid, TypeOps ops) { Registry()[tid] = ops; }
};

#define VF_CAT2(a, b) a##b
#define VF_CAT(a, b) VF_CAT2(a, b)
#define VF_REGISTER(tid, ...) \
  static ::vf::Registrar VF_CAT(vf_reg_, __COUNTER__){tid, ::vf::MakeOps<__VA_ARGS__>()}

// Rows of the generated name table (names_gen.cpp): hashes and selectors computed at compile time.
struct NameRow {
  const char* kind;           // table | iface64 | iface32
  std::vector<uint8_t> name;
  uint64_t hash_ct;           // EntryList::Hash / NOP__INTERFACE::Hash (compile time)
  uint64_t selector_ct;       // selector of method "Ping" (interfaces)
  int selector_width;
  std::vector<uint8_t> wire;  // encoded table (tables): carries the hash on the wire
  uint64_t hash_rt;           // the same hash computed at run time over the same bytes
};
std::vector<NameRow>& NameRows();

// Command handlers other than the codec ones register themselves here.
using CommandFn = void (*)(const Json& cmd, JsonOut& o);
std::map<std::string, CommandFn>& Commands();
struct CommandRegistrar {
  CommandRegistrar(const char* name, CommandFn fn) { Commands()[name] = fn; }
};

}  // namespace vf

#endif  // VF_OPS_H_
