// "rpc" command (C14): Invoke through SimpleMethodSender to InterfaceBindings via
// SimpleMethodReceiver over a deterministic single-threaded loopback transport:
// the caller's reply reader, when it runs dry, runs the peer's dispatcher on the
// request bytes accumulated so far.
#include <limits>
#include <functional>

#include <nop/rpc/interface.h>
#include <nop/rpc/simple_method_receiver.h>
#include <nop/rpc/simple_method_sender.h>
#include <nop/serializer.h>
#include <nop/structure.h>

#include <fcntl.h>
#include <unistd.h>

#include <mutex>
#include <thread>

#include <nop/utility/fd_reader.h>
#include <nop/utility/fd_writer.h>

#include "ops.h"

namespace rpcx {

enum class DivErr : std::uint8_t { None = 0, DivideByZero = 1 };
struct Point {
  std::int32_t x{};
  std::string s;
  NOP_STRUCTURE(Point, x, s);
};
using IntOrStr = nop::Variant<std::int32_t, std::string>;

struct Calc : nop::Interface<Calc> {
  NOP_INTERFACE("io.verif.Calc");
  NOP_METHOD(Sum, std::int32_t(std::int32_t a, std::int32_t b));
  NOP_METHOD(Concat, std::string(const std::string& a, const std::string& b));
  NOP_METHOD(Echo, std::vector<std::uint8_t>(std::vector<std::uint8_t> v));
  NOP_METHOD(Stats, Point(const Point& p, nop::Optional<std::int32_t> o));
  NOP_METHOD(Choose, IntOrStr(const IntOrStr& v));
  NOP_METHOD(Div, nop::Result<DivErr, std::int32_t>(std::int32_t a, std::int32_t b));
  NOP_METHOD(Unbound, std::int32_t(std::int32_t a));
  // 64-bit and mixed-width integral parameters (called with narrower / differently signed arguments), and a method
  // without a return value (no reply; the library cannot dispatch a handler that returns void, so it stays unbound)
  NOP_METHOD(Seek, std::int64_t(std::int64_t pos));
  NOP_METHOD(Reserve, std::uint64_t(std::uint64_t n));
  NOP_METHOD(Scale, std::int64_t(int a, std::int64_t b));
  NOP_METHOD(Notify, void(const std::string& s, const std::vector<std::uint32_t>& v));
  NOP_INTERFACE_API(Sum, Concat, Echo, Stats, Choose, Div, Unbound, Seek, Reserve, Scale, Notify);
};

struct Small : nop::Interface<Small> {
  NOP_INTERFACE32("io.verif.Small");
  NOP_METHOD(Inc, std::uint8_t(std::uint8_t a));
  NOP_METHOD(Name, std::string());
  NOP_METHOD_SEL(42, Fixed, std::uint16_t(std::uint16_t a, std::uint16_t b));
  NOP_METHOD(Other, std::uint8_t(std::uint8_t a));
  NOP_INTERFACE_API(Inc, Name, Fixed, Other);
};

}  // namespace rpcx

namespace vf {
template <> struct Abs<rpcx::Point, void> {
  static void to(const rpcx::Point& v, JsonOut& o) {
    o.begin_obj(); o.key("m"); o.begin_arr();
    Abs<std::int32_t>::to(v.x, o); Abs<std::string>::to(v.s, o);
    o.end_arr(); o.end_obj();
  }
  static bool from(const Json& j, rpcx::Point& v) {
    const Json& m = j.at("m");
    return m.is_arr() && m.size() == 2 && Abs<std::int32_t>::from(m[0], v.x) && Abs<std::string>::from(m[1], v.s);
  }
};

namespace {

using namespace rpcx;

// ---- loopback transport -------------------------------------------------------------
struct Loop;
struct ReqWriter {   // caller -> request bytes
  Loop* loop;
  St Prepare(size_t);
  St Write(uint8_t b);
  template <typename T> St Write(const T* b, const T* e);
  St Skip(size_t n, uint8_t pad = 0);
};
struct RepReader {   // caller <- reply bytes; underflow runs the dispatcher
  Loop* loop;
  St Ensure(size_t n);
  St Read(uint8_t* b) { return Read(b, b + 1); }
  template <typename T> St Read(T* b, T* e);
  St Skip(size_t n);
};
struct ReqReader {   // dispatcher <- request bytes
  Loop* loop;
  St Ensure(size_t n);
  St Read(uint8_t* b) { return Read(b, b + 1); }
  template <typename T> St Read(T* b, T* e);
  St Skip(size_t n);
};
struct RepWriter {   // dispatcher -> reply bytes
  Loop* loop;
  St Prepare(size_t);
  St Write(uint8_t b);
  template <typename T> St Write(const T* b, const T* e);
  St Skip(size_t n, uint8_t pad = 0);
};

struct HandlerLog {
  std::string m;
  std::string args_json;   // {"m":[...]}
  std::string ret_json;
};

struct Loop {
  // fault injection on one of the four pipe ends: its k-th primitive call fails with code e
  std::string fault_on;
  long fault_k = 0;
  int fault_e = 0;
  long ncalls[4] = {0, 0, 0, 0};   // reqw, repr, reqr, repw
  bool ftrig = false, caf = false;
  // returns true (and sets *st) when the call must fail
  bool Fault(int end, St* st) {
    static const char* names[4] = {"reqw", "repr", "reqr", "repw"};
    ncalls[end]++;
    if (fault_on != names[end]) return false;
    if (ftrig) { caf = true; *st = FromCode(fault_e); return true; }
    if (ncalls[end] == fault_k) { ftrig = true; *st = FromCode(fault_e); return true; }
    return false;
  }
  std::vector<uint8_t> req, rep;
  size_t req_pos = 0, rep_pos = 0;
  bool dispatched = false;
  int dstatus = -1;
  std::function<St()> dispatch;        // runs the peer's dispatcher once
  const Json* mut = nullptr;           // tampering applied to the pending request before dispatch
  std::vector<HandlerLog> hlog;
  std::vector<uint8_t> req_sent, req_seen;
  void RunDispatcher() {
    if (dispatched) return;
    dispatched = true;
    req_sent.assign(req.begin() + static_cast<long>(req_pos), req.end());
    if (mut) {
      std::vector<uint8_t> b = req_sent;
      for (auto& m : mut->a) {
        const std::string& op = m.at("op").s;
        size_t len = b.size();
        if (op == "set" && len) b[static_cast<size_t>(m.at("at").num()) % len] = static_cast<uint8_t>(m.at("val").num());
        else if (op == "trunc") b.resize(len ? static_cast<size_t>(m.at("k").num()) % (len + 1) : 0);
        else if (op == "append") { auto x = BytesOf(m.at("b")); b.insert(b.end(), x.begin(), x.end()); }
        else if (op == "replace") b = BytesOf(m.at("b"));
      }
      req.resize(req_pos);
      req.insert(req.end(), b.begin(), b.end());
    }
    req_seen.assign(req.begin() + static_cast<long>(req_pos), req.end());
    dstatus = Code(dispatch());
  }
};

St ReqWriter::Prepare(size_t) { St st; if (loop->Fault(0, &st)) return st; return {}; }
St RepWriter::Prepare(size_t) { St st; if (loop->Fault(3, &st)) return st; return {}; }
St ReqWriter::Write(uint8_t b) { St st; if (loop->Fault(0, &st)) return st; loop->req.push_back(b); return {}; }
template <typename T> St ReqWriter::Write(const T* b, const T* e) {
  { St st; if (loop->Fault(0, &st)) return st; }
  const uint8_t* p = reinterpret_cast<const uint8_t*>(b);
  loop->req.insert(loop->req.end(), p, p + (e - b) * sizeof(T));
  return {};
}
St ReqWriter::Skip(size_t n, uint8_t pad) { loop->req.insert(loop->req.end(), n, pad); return {}; }
St RepWriter::Write(uint8_t b) { St st; if (loop->Fault(3, &st)) return st; loop->rep.push_back(b); return {}; }
template <typename T> St RepWriter::Write(const T* b, const T* e) {
  { St st; if (loop->Fault(3, &st)) return st; }
  const uint8_t* p = reinterpret_cast<const uint8_t*>(b);
  loop->rep.insert(loop->rep.end(), p, p + (e - b) * sizeof(T));
  return {};
}
St RepWriter::Skip(size_t n, uint8_t pad) { loop->rep.insert(loop->rep.end(), n, pad); return {}; }

St RepReader::Ensure(size_t n) {
  { St st; if (loop->Fault(1, &st)) return st; }
  if (loop->rep.size() - loop->rep_pos < n) loop->RunDispatcher();
  if (loop->rep.size() - loop->rep_pos < n) return nop::ErrorStatus::ReadLimitReached;
  return {};
}
template <typename T> St RepReader::Read(T* b, T* e) {
  const size_t n = static_cast<size_t>(e - b) * sizeof(T);
  if (loop->rep.size() - loop->rep_pos < n) loop->RunDispatcher();
  { St st; if (loop->Fault(1, &st)) return st; }
  if (loop->rep.size() - loop->rep_pos < n) return nop::ErrorStatus::ReadLimitReached;
  memcpy(b, loop->rep.data() + loop->rep_pos, n);
  loop->rep_pos += n;
  return {};
}
St RepReader::Skip(size_t n) {
  if (loop->rep.size() - loop->rep_pos < n) loop->RunDispatcher();
  if (loop->rep.size() - loop->rep_pos < n) return nop::ErrorStatus::ReadLimitReached;
  loop->rep_pos += n;
  return {};
}
St ReqReader::Ensure(size_t n) {
  { St st; if (loop->Fault(2, &st)) return st; }
  if (loop->req.size() - loop->req_pos < n) return nop::ErrorStatus::ReadLimitReached;
  return {};
}
template <typename T> St ReqReader::Read(T* b, T* e) {
  const size_t n = static_cast<size_t>(e - b) * sizeof(T);
  { St st; if (loop->Fault(2, &st)) return st; }
  if (loop->req.size() - loop->req_pos < n) return nop::ErrorStatus::ReadLimitReached;
  memcpy(b, loop->req.data() + loop->req_pos, n);
  loop->req_pos += n;
  return {};
}
St ReqReader::Skip(size_t n) {
  if (loop->req.size() - loop->req_pos < n) return nop::ErrorStatus::ReadLimitReached;
  loop->req_pos += n;
  return {};
}

template <typename T> std::string J(const T& v) { JsonOut o; Abs<T>::to(v, o); return o.s; }
template <typename... Ts> std::string JArgs(const Ts&... vs) {
  JsonOut o; o.begin_obj(); o.key("m"); o.begin_arr();
  (void)std::initializer_list<int>{(Abs<std::decay_t<Ts>>::to(vs, o), 0)...};
  o.end_arr(); o.end_obj();
  return o.s;
}

// Calls Method::Invoke(sender, std::get<Is>(args)...) with the tuple decoded from the command.
template <typename Method, typename Sender, typename Tuple, size_t... Is>
auto InvokeTuple(Sender* s, Tuple& t, std::index_sequence<Is...>) { return Method::Invoke(s, std::move(std::get<Is>(t))...); }

template <typename Ret> struct RetEmit {
  static void emit(const nop::Status<Ret>& st, JsonOut& o) {
    o.kv_num("st_invoke", st ? 0 : static_cast<int>(st.error()));
    if (st) { o.key("ret"); Abs<Ret>::to(st.get(), o); }
  }
};
template <> struct RetEmit<void> {
  static void emit(const nop::Status<void>& st, JsonOut& o) { o.kv_num("st_invoke", st ? 0 : static_cast<int>(st.error())); }
};

using Ser = nop::Serializer<ReqWriter*>;
using Des = nop::Deserializer<RepReader*>;
using PSer = nop::Serializer<RepWriter*>;
using PDes = nop::Deserializer<ReqReader*>;

struct Ctx {
  Loop loop;
  ReqWriter reqw{&loop};
  RepReader repr{&loop};
  ReqReader reqr{&loop};
  RepWriter repw{&loop};
  Ser ser{&reqw};
  Des des{&repr};
  PSer pser{&repw};
  PDes pdes{&reqr};
};

template <typename Method, typename Ret, typename... Args>
void CallTyped(Ctx& c, const Json& args, JsonOut& o) {
  std::tuple<std::decay_t<Args>...> t;
  if (!Abs<decltype(t)>::from(args, t)) { o.kv_bool("badargs", true); return; }
  auto sender = nop::MakeSimpleMethodSender(&c.ser, &c.des);
  nop::Status<Ret> st = InvokeTuple<Method>(&sender, t, std::make_index_sequence<sizeof...(Args)>{});
  RetEmit<Ret>::emit(st, o);
}

// Raw request: arbitrary selector / argument bytes written by the harness, no Invoke.
void CallRaw(Ctx& c, const Json& call, JsonOut& o) {
  std::vector<uint8_t> b = BytesOf(call.at("raw"));
  c.loop.req.insert(c.loop.req.end(), b.begin(), b.end());
  o.kv_num("st_invoke", -1);
}

// Handlers of a class instance bound as methods; the instance pointer is the passthrough argument
// (handlers with further leading arguments do not compile against InterfaceMethod::Helper::Call).
struct SmallImpl {
  Loop* loop;
  std::uint8_t Inc(std::uint8_t a) {
    std::uint8_t r = static_cast<std::uint8_t>(a + 1);
    loop->hlog.push_back({"Inc", JArgs(a), J(r)});
    return r;
  }
  std::string Name() const {
    std::string r = "small";
    loop->hlog.push_back({"Name", JArgs(), J(r)});
    return r;
  }
  std::uint16_t Fixed(std::uint16_t a, std::uint16_t b) {
    std::uint16_t r = static_cast<std::uint16_t>(a * 3 + b);
    loop->hlog.push_back({"Fixed", JArgs(a, b), J(r)});
    return r;
  }
};

// A handler that, while it is running, has the same interface method dispatched once more on this thread (its own
// connection, bindings and handler): what a proxy tier does when it forwards a miss upstream. The outer handler's
// arguments must be untouched by it.
void RunInnerConcat() {
  Ctx c2;
  Loop* L2 = &c2.loop;
  auto receiver = nop::MakeSimpleMethodReceiver(&c2.pser, &c2.pdes);
  auto inner = nop::BindInterface(
      Calc::Concat::Bind([](const std::string& a, const std::string& b) { return a + "|" + b; }));
  L2->dispatch = [&]() { return inner(&receiver); };
  auto sender = nop::MakeSimpleMethodSender(&c2.ser, &c2.des);
  (void)Calc::Concat::Invoke(&sender, std::string("inner-first-argument-of-some-length"), std::string("inner-second"));
}

void RunCalls(const std::string& iface, const Json& calls, JsonOut& o) {
  Ctx c;
  Loop* L = &c.loop;
  auto receiver = nop::MakeSimpleMethodReceiver(&c.pser, &c.pdes);
  SmallImpl impl{L};
  // bindings: functions / lambdas for Calc (Unbound is not bound), methods with passthrough for Small (Other is not bound)
  auto calc = nop::BindInterface(
      Calc::Sum::Bind([L](std::int32_t a, std::int32_t b) { std::int32_t r = static_cast<std::int32_t>(static_cast<std::uint32_t>(a) + static_cast<std::uint32_t>(b)); L->hlog.push_back({"Sum", JArgs(a, b), J(r)}); return r; }),
      Calc::Concat::Bind([L](const std::string& a, const std::string& b) {
        if (a.size() >= 5 && a.compare(0, 5, "nest:") == 0) RunInnerConcat();     // re-entrant dispatch of the same method
        std::string r = a + b; L->hlog.push_back({"Concat", JArgs(a, b), J(r)}); return r; }),
      Calc::Echo::Bind([L](const std::vector<std::uint8_t>& v) { std::vector<std::uint8_t> r(v.rbegin(), v.rend()); L->hlog.push_back({"Echo", JArgs(v), J(r)}); return r; }),
      Calc::Stats::Bind([L](const Point& p, nop::Optional<std::int32_t> opt) { Point r{p.x + (opt ? 1 : 0), p.s + "!"}; L->hlog.push_back({"Stats", JArgs(p, opt), J(r)}); return r; }),
      Calc::Choose::Bind([L](const IntOrStr& v) { IntOrStr r; if (v.is<std::int32_t>()) r = std::string("int"); else if (v.is<std::string>()) r = std::int32_t{7}; L->hlog.push_back({"Choose", JArgs(v), J(r)}); return r; }),
      Calc::Seek::Bind([L](std::int64_t p) { std::int64_t r = static_cast<std::int64_t>(static_cast<std::uint64_t>(p) ^ 0x5555u); L->hlog.push_back({"Seek", JArgs(p), J(r)}); return r; }),
      Calc::Reserve::Bind([L](std::uint64_t n) { std::uint64_t r = n / 2 + 1; L->hlog.push_back({"Reserve", JArgs(n), J(r)}); return r; }),
      Calc::Scale::Bind([L](int a, std::int64_t b) { std::int64_t r = static_cast<std::int64_t>(static_cast<std::uint64_t>(static_cast<std::int64_t>(a)) * 3u + static_cast<std::uint64_t>(b)); L->hlog.push_back({"Scale", JArgs(a, b), J(r)}); return r; }),
      Calc::Div::Bind([L](std::int32_t a, std::int32_t b) { nop::Result<DivErr, std::int32_t> r; if (b == 0 || (a == std::numeric_limits<std::int32_t>::min() && b == -1)) r = DivErr::DivideByZero; else r = a / b; L->hlog.push_back({"Div", JArgs(a, b), J(r)}); return r; }));
  auto small = nop::BindInterface<SmallImpl*>(Small::Inc::Bind(&SmallImpl::Inc), Small::Name::Bind(&SmallImpl::Name),
                                                  Small::Fixed::Bind(&SmallImpl::Fixed));
  // the dispatch table's own view: selector of every declared method (Method::Selector and the by-index lookup of
  // the interface) and whether the table matches it (InterfaceBindings::Match)
  o.key("sels");
  o.begin_arr();
  auto sel_row = [&o](const char* label, std::uint64_t sel, std::uint64_t by_index, bool match) {
    o.begin_obj();
    o.kv_str("m", label);
    o.kv_word("sel", sel, 8);
    o.kv_word("isel", by_index, 8);
    o.kv_bool("match", match);
    o.end_obj();
  };
  if (iface == "calc") {
    sel_row("Sum", Calc::Sum::Selector, Calc::GetMethodSelector<0>(), calc.Match(Calc::Sum::Selector));
    sel_row("Concat", Calc::Concat::Selector, Calc::GetMethodSelector<1>(), calc.Match(Calc::Concat::Selector));
    sel_row("Echo", Calc::Echo::Selector, Calc::GetMethodSelector<2>(), calc.Match(Calc::Echo::Selector));
    sel_row("Stats", Calc::Stats::Selector, Calc::GetMethodSelector<3>(), calc.Match(Calc::Stats::Selector));
    sel_row("Choose", Calc::Choose::Selector, Calc::GetMethodSelector<4>(), calc.Match(Calc::Choose::Selector));
    sel_row("Div", Calc::Div::Selector, Calc::GetMethodSelector<5>(), calc.Match(Calc::Div::Selector));
    sel_row("Unbound", Calc::Unbound::Selector, Calc::GetMethodSelector<6>(), calc.Match(Calc::Unbound::Selector));
    sel_row("Seek", Calc::Seek::Selector, Calc::GetMethodSelector<7>(), calc.Match(Calc::Seek::Selector));
    sel_row("Reserve", Calc::Reserve::Selector, Calc::GetMethodSelector<8>(), calc.Match(Calc::Reserve::Selector));
    sel_row("Scale", Calc::Scale::Selector, Calc::GetMethodSelector<9>(), calc.Match(Calc::Scale::Selector));
    sel_row("Notify", Calc::Notify::Selector, Calc::GetMethodSelector<10>(), calc.Match(Calc::Notify::Selector));
  } else {
    sel_row("Inc", Small::Inc::Selector, Small::GetMethodSelector<0>(), small.Match(Small::Inc::Selector));
    sel_row("Name", Small::Name::Selector, Small::GetMethodSelector<1>(), small.Match(Small::Name::Selector));
    sel_row("Fixed", Small::Fixed::Selector, Small::GetMethodSelector<2>(), small.Match(Small::Fixed::Selector));
    sel_row("Other", Small::Other::Selector, Small::GetMethodSelector<3>(), small.Match(Small::Other::Selector));
  }
  o.end_arr();
  o.kv_str("iname", iface == "calc" ? Calc::GetInterfaceName() : Small::GetInterfaceName());
  o.key("calls");
  o.begin_arr();
  for (auto& call : calls.a) {
    const std::string& m = call.at("m").s;
    L->dispatched = false;
    L->dstatus = -1;
    L->hlog.clear();
    L->mut = call.has("mut") ? &call.at("mut") : nullptr;
    L->fault_on = call.has("fault") ? call.at("fault").at("on").s : "";
    L->fault_k = call.has("fault") ? static_cast<long>(call.at("fault").at("k").num()) : 0;
    L->fault_e = call.has("fault") ? static_cast<int>(call.at("fault").at("e").num(16)) : 0;
    L->ftrig = L->caf = false;
    for (auto& n : L->ncalls) n = 0;
    const size_t req0 = L->req.size();
    const size_t rep0 = L->rep.size();
    if (iface == "calc") L->dispatch = [&]() { return calc(&receiver); };
    else L->dispatch = [&]() { return small(&receiver, &impl); };
    o.begin_obj();
    o.kv_str("m", m);
    if (call.has("args")) { o.key("args"); WriteJson(call.at("args"), o); }
    const Json& a = call.at("args");
    if (m == "Raw") CallRaw(c, call, o);
    else if (iface == "calc") {
      if (m == "Sum") CallTyped<Calc::Sum, std::int32_t, std::int32_t, std::int32_t>(c, a, o);
      else if (m == "Concat") CallTyped<Calc::Concat, std::string, std::string, std::string>(c, a, o);
      else if (m == "Echo") CallTyped<Calc::Echo, std::vector<std::uint8_t>, std::vector<std::uint8_t>>(c, a, o);
      else if (m == "EchoArr") CallTyped<Calc::Echo, std::vector<std::uint8_t>, std::array<std::uint8_t, 3>>(c, a, o);  // fungible substitution
      else if (m == "Stats") CallTyped<Calc::Stats, Point, Point, nop::Optional<std::int32_t>>(c, a, o);
      else if (m == "Choose") CallTyped<Calc::Choose, IntOrStr, IntOrStr>(c, a, o);
      else if (m == "Div") CallTyped<Calc::Div, nop::Result<DivErr, std::int32_t>, std::int32_t, std::int32_t>(c, a, o);
      else if (m == "Unbound") CallTyped<Calc::Unbound, std::int32_t, std::int32_t>(c, a, o);
      else if (m == "Seek") CallTyped<Calc::Seek, std::int64_t, std::int64_t>(c, a, o);
      else if (m == "Reserve") CallTyped<Calc::Reserve, std::uint64_t, std::uint64_t>(c, a, o);
      else if (m == "Scale") CallTyped<Calc::Scale, std::int64_t, int, std::int64_t>(c, a, o);
      else if (m == "Notify") CallTyped<Calc::Notify, void, std::string, std::vector<std::uint32_t>>(c, a, o);
      // conforming substitutions: integral arguments narrower than / signed differently from the declared parameter
      else if (m == "SumU16U8") CallTyped<Calc::Sum, std::int32_t, std::uint16_t, std::uint8_t>(c, a, o);
      else if (m == "SumI8I16") CallTyped<Calc::Sum, std::int32_t, std::int8_t, std::int16_t>(c, a, o);
      else if (m == "SeekU32") CallTyped<Calc::Seek, std::int64_t, std::uint32_t>(c, a, o);
      else if (m == "SeekU8") CallTyped<Calc::Seek, std::int64_t, std::uint8_t>(c, a, o);
      else if (m == "SeekI16") CallTyped<Calc::Seek, std::int64_t, std::int16_t>(c, a, o);
      else if (m == "ReserveU16") CallTyped<Calc::Reserve, std::uint64_t, std::uint16_t>(c, a, o);
      else if (m == "ReserveI32") CallTyped<Calc::Reserve, std::uint64_t, std::int32_t>(c, a, o);
      else if (m == "ScaleU8U32") CallTyped<Calc::Scale, std::int64_t, std::uint8_t, std::uint32_t>(c, a, o);
      else if (m == "ScaleI16I8") CallTyped<Calc::Scale, std::int64_t, std::int16_t, std::int8_t>(c, a, o);
      else o.kv_bool("badmethod", true);
    } else {
      if (m == "Inc") CallTyped<Small::Inc, std::uint8_t, std::uint8_t>(c, a, o);
      else if (m == "Name") CallTyped<Small::Name, std::string>(c, a, o);
      else if (m == "Fixed") CallTyped<Small::Fixed, std::uint16_t, std::uint16_t, std::uint16_t>(c, a, o);
      else if (m == "Other") CallTyped<Small::Other, std::uint8_t, std::uint8_t>(c, a, o);
      else o.kv_bool("badmethod", true);
    }
    // a call without a reply (void return, raw request) has not triggered the peer yet
    if (!L->dispatched && L->req.size() > L->req_pos) L->RunDispatcher();
    if (call.has("fault")) {
      o.key("fault"); WriteJson(call.at("fault"), o);
      o.kv_bool("ftrig", L->ftrig);
      o.kv_bool("caf", L->caf);
    }
    o.kv_num("dstatus", L->dstatus);
    o.key("req"); o.bytes(L->req_sent.data(), L->req_sent.size());
    o.key("seen"); o.bytes(L->req_seen.data(), L->req_seen.size());
    (void)req0;
    o.key("rep"); o.bytes(L->rep.data() + rep0, L->rep.size() - rep0);
    o.kv_num("req_left", static_cast<long long>(L->req.size() - L->req_pos));
    o.kv_num("rep_left", static_cast<long long>(L->rep.size() - L->rep_pos));
    o.key("hlog");
    o.begin_arr();
    for (auto& h : L->hlog) {
      o.begin_obj();
      o.kv_str("m", h.m);
      o.kv_raw("args", h.args_json);
      if (h.ret_json != "null") o.kv_raw("ret", h.ret_json);
      o.end_obj();
    }
    o.end_arr();
    o.end_obj();
    // resynchronise the pipes after a failed call so that the next call starts at a frame boundary
    L->req_pos = L->req.size();
    L->rep_pos = L->rep.size();
  }
  o.end_arr();
}

// ---- two-thread transport over real pipes ---------------------------------------------
// Caller and dispatcher run in two threads connected by two pipe()s through the library's FdWriter / FdReader
// (wrapped only to record the bytes that pass). The dispatcher thread serves requests until one fails and then
// closes its ends; the caller then sees the end of the connection. Requests cannot be tampered with in flight here.
struct TeeWriter {
  nop::FdWriter* w;
  std::vector<uint8_t>* log;
  std::mutex* mu;
  St Prepare(size_t n) { return w->Prepare(n); }
  St Write(uint8_t b) { auto st = w->Write(b); if (st) { std::lock_guard<std::mutex> g(*mu); log->push_back(b); } return st; }
  // byte by byte (as FdWriter's own block overload does), so that the record of what travelled stays exact when the
  // peer closes the pipe in the middle of a block
  template <typename T> St Write(const T* b, const T* e) {
    const uint8_t* p = reinterpret_cast<const uint8_t*>(b);
    const size_t n = static_cast<size_t>(e - b) * sizeof(T);
    for (size_t i = 0; i < n; i++) { auto st = Write(p[i]); if (!st) return st; }
    return {};
  }
  St Skip(size_t n, uint8_t pad = 0) { for (size_t i = 0; i < n; i++) { auto st = Write(pad); if (!st) return st; } return {}; }
};
struct TeeReader {
  nop::FdReader* r;
  std::vector<uint8_t>* log;
  std::mutex* mu;
  St Ensure(size_t n) { return r->Ensure(n); }
  St Read(uint8_t* b) { auto st = r->Read(b); if (st) { std::lock_guard<std::mutex> g(*mu); log->push_back(*b); } return st; }
  template <typename T> St Read(T* b, T* e) {
    auto st = r->Read(b, e);
    if (st) { std::lock_guard<std::mutex> g(*mu); const uint8_t* p = reinterpret_cast<const uint8_t*>(b); log->insert(log->end(), p, p + (e - b) * sizeof(T)); }
    return st;
  }
  St Skip(size_t n) { for (size_t i = 0; i < n; i++) { uint8_t b; auto st = Read(&b); if (!st) return st; } return {}; }
};

struct PipeCtx {
  std::mutex mu;
  std::vector<uint8_t> req_written, req_read, rep_written, rep_read;
  std::vector<HandlerLog> hlog;
  std::vector<int> dstatus;     // one per dispatcher pass, in order
};

template <typename Method, typename Ret, typename... Args>
void PipeCallTyped(nop::Serializer<TeeWriter*>* ser, nop::Deserializer<TeeReader*>* des, const Json& args, JsonOut& o) {
  std::tuple<std::decay_t<Args>...> t;
  if (!Abs<decltype(t)>::from(args, t)) { o.kv_bool("badargs", true); return; }
  auto sender = nop::MakeSimpleMethodSender(ser, des);
  nop::Status<Ret> st = InvokeTuple<Method>(&sender, t, std::make_index_sequence<sizeof...(Args)>{});
  RetEmit<Ret>::emit(st, o);
}

void RunPipeCalls(const Json& calls, JsonOut& o) {
  int c2s[2], s2c[2];
  if (::pipe(c2s) != 0 || ::pipe(s2c) != 0) { o.kv_bool("nopipe", true); return; }
  PipeCtx px;
  PipeCtx* P = &px;
  std::thread server([P, &c2s, &s2c]() {
    nop::FdReader fr(c2s[0]);
    nop::FdWriter fw(s2c[1]);
    TeeReader tr{&fr, &P->req_read, &P->mu};
    TeeWriter tw{&fw, &P->rep_written, &P->mu};
    nop::Serializer<TeeWriter*> pser{&tw};
    nop::Deserializer<TeeReader*> pdes{&tr};
    auto receiver = nop::MakeSimpleMethodReceiver(&pser, &pdes);
    auto log = [P](const char* m, std::string a, std::string r) { std::lock_guard<std::mutex> g(P->mu); P->hlog.push_back({m, std::move(a), std::move(r)}); };
    auto calc = nop::BindInterface(
        Calc::Sum::Bind([log](std::int32_t a, std::int32_t b) { std::int32_t r = static_cast<std::int32_t>(static_cast<std::uint32_t>(a) + static_cast<std::uint32_t>(b)); log("Sum", JArgs(a, b), J(r)); return r; }),
        Calc::Concat::Bind([log](const std::string& a, const std::string& b) { std::string r = a + b; log("Concat", JArgs(a, b), J(r)); return r; }),
        Calc::Echo::Bind([log](const std::vector<std::uint8_t>& v) { std::vector<std::uint8_t> r(v.rbegin(), v.rend()); log("Echo", JArgs(v), J(r)); return r; }),
        Calc::Seek::Bind([log](std::int64_t p) { std::int64_t r = static_cast<std::int64_t>(static_cast<std::uint64_t>(p) ^ 0x5555u); log("Seek", JArgs(p), J(r)); return r; }),
        Calc::Div::Bind([log](std::int32_t a, std::int32_t b) { nop::Result<DivErr, std::int32_t> r; if (b == 0 || (a == std::numeric_limits<std::int32_t>::min() && b == -1)) r = DivErr::DivideByZero; else r = a / b; log("Div", JArgs(a, b), J(r)); return r; }));
    while (true) {
      auto st = calc(&receiver);
      { std::lock_guard<std::mutex> g(P->mu); P->dstatus.push_back(Code(st)); }
      if (!st) break;     // the connection is dropped after the first failed request
    }
    // fr / fw close their descriptors here
  });
  {
    nop::FdWriter cw(c2s[1]);
    nop::FdReader cr(s2c[0]);
    TeeWriter tw{&cw, &P->req_written, &P->mu};
    TeeReader tr{&cr, &P->rep_read, &P->mu};
    nop::Serializer<TeeWriter*> ser{&tw};
    nop::Deserializer<TeeReader*> des{&tr};
    o.key("calls");
    o.begin_arr();
    for (auto& call : calls.a) {
      const std::string& m = call.at("m").s;
      size_t req0, rep0, hl0, ds0, reqr0;
      { std::lock_guard<std::mutex> g(P->mu); req0 = P->req_written.size(); rep0 = P->rep_written.size(); hl0 = P->hlog.size(); ds0 = P->dstatus.size(); reqr0 = P->req_read.size(); }
      o.begin_obj();
      o.kv_str("m", m);
      o.kv_bool("pipe", true);
      if (call.has("args")) { o.key("args"); WriteJson(call.at("args"), o); }
      const Json& a = call.at("args");
      if (m == "Raw") {
        std::vector<uint8_t> b = BytesOf(call.at("raw"));
        (void)tw.Write(b.data(), b.data() + b.size());
        o.kv_num("st_invoke", -1);
      }
      else if (m == "Sum") PipeCallTyped<Calc::Sum, std::int32_t, std::int32_t, std::int32_t>(&ser, &des, a, o);
      else if (m == "Concat") PipeCallTyped<Calc::Concat, std::string, std::string, std::string>(&ser, &des, a, o);
      else if (m == "Echo") PipeCallTyped<Calc::Echo, std::vector<std::uint8_t>, std::vector<std::uint8_t>>(&ser, &des, a, o);
      else if (m == "EchoArr") PipeCallTyped<Calc::Echo, std::vector<std::uint8_t>, std::array<std::uint8_t, 3>>(&ser, &des, a, o);
      else if (m == "Seek") PipeCallTyped<Calc::Seek, std::int64_t, std::int64_t>(&ser, &des, a, o);
      else if (m == "SeekU32") PipeCallTyped<Calc::Seek, std::int64_t, std::uint32_t>(&ser, &des, a, o);
      else if (m == "Div") PipeCallTyped<Calc::Div, nop::Result<DivErr, std::int32_t>, std::int32_t, std::int32_t>(&ser, &des, a, o);
      else if (m == "Unbound") PipeCallTyped<Calc::Unbound, std::int32_t, std::int32_t>(&ser, &des, a, o);
      else if (m == "Stats") PipeCallTyped<Calc::Stats, Point, Point, nop::Optional<std::int32_t>>(&ser, &des, a, o);   // not bound on this server
      else o.kv_bool("badmethod", true);
      // a call that got its reply returns after the dispatcher pass has completed; one that did not (unbound method,
      // raw bytes) is over when the dispatcher has dropped the connection
      bool failed_pass = false;
      for (int spin = 0; spin < 250000; spin++) {      // up to 25 s on a loaded machine; normally microseconds
        {
          std::lock_guard<std::mutex> g(P->mu);
          if (P->dstatus.size() > ds0) { failed_pass = P->dstatus.back() != 0; break; }
        }
        ::usleep(100);
      }
      std::lock_guard<std::mutex> g(P->mu);
      o.kv_num("dstatus", P->dstatus.size() > ds0 ? P->dstatus[ds0] : -1);
      o.key("req"); o.bytes(P->req_written.data() + req0, P->req_written.size() - req0);
      o.key("seen"); o.bytes(P->req_written.data() + req0, P->req_written.size() - req0);     // nothing sits between the peers
      o.key("rep"); o.bytes(P->rep_written.data() + rep0, P->rep_written.size() - rep0);
      // bytes of this request the dispatcher did not consume / of this reply the caller did not consume
      o.kv_num("req_left", static_cast<long long>(P->req_written.size() - P->req_read.size()));
      o.kv_num("rep_left", static_cast<long long>(P->rep_written.size() - P->rep_read.size()));
      (void)reqr0;
      o.key("hlog");
      o.begin_arr();
      for (size_t i = hl0; i < P->hlog.size(); i++) {
        o.begin_obj();
        o.kv_str("m", P->hlog[i].m);
        o.kv_raw("args", P->hlog[i].args_json);
        if (P->hlog[i].ret_json != "null") o.kv_raw("ret", P->hlog[i].ret_json);
        o.end_obj();
      }
      o.end_arr();
      o.end_obj();
      if (failed_pass) break;     // the connection is gone: later calls are not part of this history
    }
    o.end_arr();
    // cw / cr close here: the dispatcher's next read sees the end of the stream and its loop ends
  }
  server.join();
  o.key("dispatcher_passes");
  o.begin_arr();
  for (int d : P->dstatus) o.num(d);
  o.end_arr();
}

void CmdRpc(const Json& cmd, JsonOut& o) {
  o.kv_str("e", "RPC");
  o.kv_str("iface", cmd.at("iface").s);
  o.kv_word("hash_calc", Calc::GetInterfaceHash(), 8);
  o.kv_word("hash_small", Small::GetInterfaceHash(), 8);
  if (cmd.at("transport").s == "pipe") { o.kv_str("transport", "pipe"); RunPipeCalls(cmd.at("calls"), o); return; }
  RunCalls(cmd.at("iface").s, cmd.at("calls"), o);
}

CommandRegistrar r_rpc("rpc", CmdRpc);

}  // namespace

// Entry point for other commands (threads, C19): one connection with its own pipes, bindings and handlers.
void RunRpcCalls(const std::string& iface, const Json& calls, JsonOut& o) { RunCalls(iface, calls, o); }

}  // namespace vf
