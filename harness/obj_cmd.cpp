// "obj" command: operation histories on Variant, Optional, Entry, Result and
// UniqueHandle objects with lifetime-tracking element types (C12, C13, C15b);
// "cmp" (Optional relational operators) and "msg" (Status messages).
#include <limits>
#include <stdexcept>
#include <type_traits>

#include <nop/status.h>
#include <nop/table.h>
#include <fcntl.h>
#include <unistd.h>
#include <nop/types/file_handle.h>
#include <nop/types/handle.h>
#include <nop/types/optional.h>
#include <nop/types/result.h>
#include <nop/types/variant.h>
#include <nop/utility/fd_reader.h>
#include <nop/utility/fd_writer.h>

#include "ops.h"

namespace vf {

// ---- lifetime-tracking element types -------------------------------------------
struct Life {
  long born = 0, died = 0, dd = 0, dead_use = 0;
};
static Life g_life[3];            // per element type tag: 0 = A, 1 = B, 2 = C
static int g_throw_countdown = 0;  // > 0: the n-th throwing-capable construction throws

static const uint32_t kAlive = 0xA11CE5ED, kDead = 0xDEADDEAD;
static const int kMoved = -777;

static void MaybeThrow() {
  if (g_throw_countdown > 0 && --g_throw_countdown == 0) throw std::runtime_error("element constructor");
}

struct ElemC {
  int v;
  uint32_t magic;
  explicit ElemC(int x = 0) : v(x), magic(kAlive) { g_life[2].born++; }
  ElemC(const ElemC& o) : v(o.v), magic(kAlive) { g_life[2].born++; }
  ~ElemC() { if (magic != kAlive) g_life[2].dd++; magic = kDead; g_life[2].died++; }
};

// a plain (nothrow-copyable) value that converts to ElemA only, through a constructor that may throw
struct Tok { int v; };

template <int Tag>
struct Elem {
  int v;
  uint32_t magic;
  Elem() : v(0), magic(kAlive) { g_life[Tag].born++; }
  explicit Elem(int x) : v(x), magic(kAlive) { MaybeThrow(); g_life[Tag].born++; }
  Elem(const Elem& o) : v(o.v), magic(kAlive) { if (o.magic != kAlive) g_life[Tag].dead_use++; MaybeThrow(); g_life[Tag].born++; }
  Elem(Elem&& o) noexcept : v(o.v), magic(kAlive) { if (o.magic != kAlive) g_life[Tag].dead_use++; if (&o != this) o.v = kMoved; g_life[Tag].born++; }
  // converting constructor from C (only A is used with it)
  template <int T2 = Tag, typename = std::enable_if_t<T2 == 0>>
  Elem(const ElemC& c) : v(c.v), magic(kAlive) { MaybeThrow(); g_life[Tag].born++; }
  template <int T2 = Tag, typename = std::enable_if_t<T2 == 0>>
  Elem(const Tok& t) : v(t.v), magic(kAlive) { MaybeThrow(); g_life[Tag].born++; }
  Elem& operator=(const Elem& o) { if (magic != kAlive || o.magic != kAlive) g_life[Tag].dead_use++; v = o.v; return *this; }
  Elem& operator=(Elem&& o) noexcept { if (magic != kAlive || o.magic != kAlive) g_life[Tag].dead_use++; if (&o != this) { v = o.v; o.v = kMoved; } return *this; }
  ~Elem() { if (magic != kAlive) g_life[Tag].dd++; magic = kDead; g_life[Tag].died++; }
  bool operator==(const Elem& o) const { return v == o.v; }
  bool operator<(const Elem& o) const { return v < o.v; }
};
using ElemA = Elem<0>;
using ElemB = Elem<1>;

static void EmitLife(JsonOut& o) {
  o.key("alive");
  o.begin_arr();
  for (int i = 0; i < 3; i++) o.num(g_life[i].born - g_life[i].died);
  o.end_arr();
  long dd = 0, du = 0;
  for (int i = 0; i < 3; i++) { dd += g_life[i].dd; du += g_life[i].dead_use; }
  o.kv_num("dd", dd);
  o.kv_num("du", du);
}

static const int kSlots = 3;

// Runs |fn| for one operation, catching an element constructor's exception.
template <typename F>
static bool Guarded(F fn) {
  try { fn(); return false; } catch (const std::runtime_error&) { return true; }
}

// ---- Variant ------------------------------------------------------------------------
using Var = nop::Variant<ElemA, int, ElemB>;   // a trivially destructible alternative sits between the tracked ones

// a Variant over other types (a subset, in another order): source of the converting constructors / assignments
using VarSub = nop::Variant<ElemB, ElemA>;
// receives the value of any alternative (IfAnyOf<...>::Get)
struct AnySink {
  int type = -9, val = 0;
  AnySink& operator=(const ElemA& a) { type = 0; val = a.v; return *this; }
  AnySink& operator=(const int& i) { type = 1; val = i; return *this; }
  AnySink& operator=(const ElemB& b) { type = 2; val = b.v; return *this; }
};

struct VarVisitor {
  int* calls; int* type; int* val;
  void operator()(nop::EmptyVariant) const { (*calls)++; *type = -1; *val = 0; }
  void operator()(const ElemA& a) const { (*calls)++; *type = 0; *val = a.v; if (a.magic != kAlive) g_life[0].dead_use++; }
  void operator()(const int& i) const { (*calls)++; *type = 1; *val = i; }
  void operator()(const ElemB& b) const { (*calls)++; *type = 2; *val = b.v; if (b.magic != kAlive) g_life[1].dead_use++; }
};

static void ObserveVar(Var* slots[], JsonOut& o) {
  o.key("obs");
  o.begin_arr();
  for (int s = 0; s < kSlots; s++) {
    o.begin_obj();
    o.kv_bool("ex", slots[s] != nullptr);
    if (slots[s]) {
      Var& v = *slots[s];
      int calls = 0, type = -9, val = 0;
      static_cast<const Var&>(v).Visit(VarVisitor{&calls, &type, &val});
      o.kv_num("i", v.index());
      o.kv_bool("empty", v.empty());
      o.kv_num("vc", calls);
      o.kv_num("vt", type);
      o.kv_num("val", val);
      o.kv_bool("ga", v.get<ElemA>() != nullptr);
      o.kv_bool("gi", v.get<int>() != nullptr);
      o.kv_bool("gb", v.get<ElemB>() != nullptr);
      // the const accessors, the index-based accessors, std::get, and IfAnyOf on the same object
      const Var& cv = v;
      o.kv_bool("cga", cv.get<ElemA>() != nullptr);
      o.kv_bool("cgi", cv.get<int>() != nullptr);
      o.kv_bool("cgb", cv.get<ElemB>() != nullptr);
      o.kv_bool("g0", v.get<0>() != nullptr);
      o.kv_bool("g1", cv.get<1>() != nullptr);
      o.kv_bool("g2", v.get<2>() != nullptr);
      int sg = 0;
      if (v.index() == 0) sg = std::get<ElemA>(v).v + 0 * std::get<0>(cv).v;
      else if (v.index() == 1) sg = std::get<int>(cv) + 0 * std::get<1>(v);
      else if (v.index() == 2) sg = std::get<2>(v).v + 0 * std::get<ElemB>(cv).v;
      o.kv_num("sg", sg);
      AnySink sink;
      const bool any_ai = nop::IfAnyOf<ElemA, int>::Get(&cv, &sink);
      o.kv_bool("any_ai", any_ai);
      o.kv_num("any_t", any_ai ? sink.type : -9);
      o.kv_num("any_v", any_ai ? sink.val : 0);
      int ncall = 0;
      const bool any_b = nop::IfAnyOf<ElemB>::Call(&v, [&ncall](const ElemB&) { ncall++; });
      o.kv_bool("any_b", any_b);
      o.kv_num("any_bc", ncall);
      o.kv_bool("isa", v.is<ElemA>());
      o.kv_bool("isi", v.is<int>());
      o.kv_bool("isb", v.is<ElemB>());
    }
    o.end_obj();
  }
  o.end_arr();
}

static void RunVariant(const Json& ops, JsonOut& o) {
  alignas(Var) unsigned char storage[kSlots][sizeof(Var)];
  Var* slots[kSlots] = {nullptr, nullptr, nullptr};
  o.key("ops");
  o.begin_arr();
  for (auto& opj : ops.a) {
    const std::string& op = opj.at("op").s;
    const int s = static_cast<int>(opj.at("o").num(0));
    const int p = static_cast<int>(opj.at("p").num(0));
    const int x = static_cast<int>(opj.at("val").num(0));
    const int k = static_cast<int>(opj.at("idx").num(0));
    g_throw_countdown = opj.at("throw").truthy() ? 1 : 0;
    bool bad = false;
    bool constructed = false;
    int op_calls = 0, op_type = -9, op_val = 0;
    // ops that build a temporary element first: the second throwing-capable construction is the library's
    if (g_throw_countdown && (op == "new_a" || op == "new_b" || op == "assign_a" || op == "assign_b")) g_throw_countdown = 2;
    bool threw = Guarded([&]() {
      void* mem = storage[s];
      if (op.compare(0, 4, "new_") == 0) {
        if (slots[s]) { bad = true; return; }
        if (op == "new_empty") slots[s] = new (mem) Var();
        else if (op == "new_ev") slots[s] = new (mem) Var(nop::EmptyVariant{});
        else if (op == "new_a") { ElemA e(x); slots[s] = new (mem) Var(e); }
        else if (op == "new_b") { ElemB e(x); slots[s] = new (mem) Var(std::move(e)); }
        else if (op == "new_i") { slots[s] = new (mem) Var(x); }
        else if (op == "new_c") { ElemC c(x); slots[s] = new (mem) Var(c); }
        else if (op == "new_t") { Tok t{x}; slots[s] = new (mem) Var(t); }
        // construction from a Variant over other types: copy (holding A), move (holding B), empty
        else if (op == "new_sub_a") { VarSub src{ElemA(x)}; slots[s] = new (mem) Var(src); }
        else if (op == "new_sub_b") { VarSub src{ElemB(x)}; slots[s] = new (mem) Var(std::move(src)); }
        else if (op == "new_sub_empty") { VarSub src; slots[s] = new (mem) Var(src); }
        else if (op == "new_copy") { if (!slots[p]) { bad = true; return; } slots[s] = new (mem) Var(*slots[p]); }
        else if (op == "new_move") { if (!slots[p]) { bad = true; return; } slots[s] = new (mem) Var(std::move(*slots[p])); }
        else bad = true;
        constructed = true;
        return;
      }
      if (!slots[s]) { bad = true; return; }
      Var& v = *slots[s];
      if (op == "assign_copy") { if (!slots[p]) { bad = true; return; } v = *slots[p]; }
      else if (op == "assign_move") { if (!slots[p]) { bad = true; return; } v = std::move(*slots[p]); }
      else if (op == "assign_a") { ElemA e(x); v = e; }
      else if (op == "assign_b") { ElemB e(x); v = std::move(e); }
      else if (op == "assign_i") { v = x; }
      else if (op == "assign_c") { ElemC c(x); v = c; }
      else if (op == "assign_t") { Tok t{x}; v = t; }
      // assignment from the variant's own active element (the argument aliases what is being assigned over)
      else if (op == "assign_own") { if (ElemA* a = v.get<ElemA>()) v = *a; else if (ElemB* b = v.get<ElemB>()) v = *b; else if (int* i = v.get<int>()) v = *i; }
      else if (op == "assign_ev") v = nop::EmptyVariant{};
      else if (op == "assign_sub_a") { VarSub src{ElemA(x)}; v = src; }
      else if (op == "assign_sub_b") { VarSub src{ElemB(x)}; v = std::move(src); }
      else if (op == "assign_sub_empty") { VarSub src; v = src; }
      // IfAnyOf<ElemA>::Swap / Take: act on the value only when an A is active
      else if (op == "swap_a") { ElemA out(x); op_calls = nop::IfAnyOf<ElemA>::Swap(&v, &out) ? 1 : 0; op_val = out.v; }
      else if (op == "take_a") { ElemA out(x); op_calls = nop::IfAnyOf<ElemA>::Take(&v, &out) ? 1 : 0; op_val = out.v; }
      else if (op == "become") v.Become(k);
      else if (op == "visit") { v.Visit(VarVisitor{&op_calls, &op_type, &op_val}); }
      else if (op == "destroy") { v.~Var(); slots[s] = nullptr; }
      else bad = true;
    });
    g_throw_countdown = 0;
    (void)constructed;
    o.begin_obj();
    o.kv_str("op", op);
    o.kv_num("o", s);
    if (opj.has("p")) o.kv_num("p", p);
    if (opj.has("val")) o.kv_num("val", x);
    if (opj.has("idx")) o.kv_num("idx", k);
    o.kv_bool("throw", opj.at("throw").truthy());
    o.kv_bool("threw", threw);
    if (bad) o.kv_bool("bad", true);
    if (op == "visit" && !bad) { o.kv_num("opvc", op_calls); o.kv_num("opvt", op_type); o.kv_num("opval", op_val); }
    if ((op == "swap_a" || op == "take_a") && !bad) { o.kv_bool("did", op_calls == 1); o.kv_num("out", op_val); }
    ObserveVar(slots, o);
    EmitLife(o);
    o.end_obj();
  }
  o.end_arr();
  for (int s = 0; s < kSlots; s++) if (slots[s]) slots[s]->~Var();
  o.key("end");
  o.begin_obj();
  EmitLife(o);
  o.end_obj();
}

// ---- Optional / Entry ---------------------------------------------------------------
template <typename T> struct ConvSource;
template <> struct ConvSource<ElemA> { using type = ElemC; };   // ElemA is constructible from ElemC
template <> struct ConvSource<int> { using type = short; };
template <typename Opt, typename T>
struct OptMachine {
  static int ValOf(const ElemA& e) { if (e.magic != kAlive) g_life[0].dead_use++; return e.v; }
  static int ValOf(const int& e) { return e; }
  static void Observe(Opt* slots[], JsonOut& o) {
    o.key("obs");
    o.begin_arr();
    for (int s = 0; s < kSlots; s++) {
      o.begin_obj();
      o.kv_bool("ex", slots[s] != nullptr);
      if (slots[s]) {
        o.kv_bool("empty", slots[s]->empty());
        o.kv_bool("bool", static_cast<bool>(*slots[s]));
        if (!slots[s]->empty()) o.kv_num("val", ValOf(slots[s]->get()));
      }
      o.end_obj();
    }
    o.end_arr();
  }
  static void Run(const Json& ops, JsonOut& o) {
    alignas(Opt) unsigned char storage[kSlots][sizeof(Opt)];
    Opt* slots[kSlots] = {nullptr, nullptr, nullptr};
    o.key("ops");
    o.begin_arr();
    for (auto& opj : ops.a) {
      const std::string& op = opj.at("op").s;
      const int s = static_cast<int>(opj.at("o").num(0));
      const int p = static_cast<int>(opj.at("p").num(0));
      const int x = static_cast<int>(opj.at("val").num(0));
      g_throw_countdown = opj.at("throw").truthy() ? 1 : 0;
      bool bad = false;
      int taken = 0;
      bool has_taken = false;
      int conv_src_empty = -1;
      if (g_throw_countdown && (op == "new_val" || op == "assign_val")) g_throw_countdown = 2;
      bool threw = Guarded([&]() {
        void* mem = storage[s];
        if (op.compare(0, 4, "new_") == 0) {
          if (slots[s]) { bad = true; return; }
          if (op == "new_empty") slots[s] = new (mem) Opt();
          else if (op == "new_val") { T e(x); slots[s] = new (mem) Opt(e); }
          else if (op == "new_rval") { slots[s] = new (mem) Opt(T(x)); }
          else if (op == "new_copy") { if (!slots[p]) { bad = true; return; } slots[s] = new (mem) Opt(*slots[p]); }
          else if (op == "new_move") { if (!slots[p]) { bad = true; return; } slots[s] = new (mem) Opt(std::move(*slots[p])); }
          else bad = true;
          return;
        }
        if (!slots[s]) { bad = true; return; }
        Opt& v = *slots[s];
        if (op == "assign_copy") { if (!slots[p]) { bad = true; return; } v = *slots[p]; }
        else if (op == "assign_move") { if (!slots[p]) { bad = true; return; } v = std::move(*slots[p]); }
        else if (op == "assign_val") { T e(x); v = e; }
        else if (op == "assign_rval") { v = T(x); }
        else if (op == "clear") v.clear();
        else if (op == "take") { if (v.empty()) { bad = true; return; } T t(v.take()); taken = ValOf(t); has_taken = true; }
        else if (op == "destroy") { v.~Opt(); slots[s] = nullptr; }
        // assignment from the object's own value (the argument aliases what is being assigned over)
        else if (op == "assign_own") { if (v.empty()) { bad = true; return; } v = v.get(); }
        else if (op == "assign_conv_move" || op == "assign_conv_copy") {
          // assignment from an Optional of a *different* element type (U converts to T)
          using U = typename ConvSource<T>::type;
          nop::Optional<U> src;
          if (!opj.at("srcempty").truthy()) src = U(x);
          if (op == "assign_conv_move") v = std::move(src); else v = src;
          conv_src_empty = src.empty() ? 1 : 0;
        }
        else bad = true;
      });
      g_throw_countdown = 0;
      o.begin_obj();
      o.kv_str("op", op);
      o.kv_num("o", s);
      if (opj.has("p")) o.kv_num("p", p);
      if (opj.has("val")) o.kv_num("val", x);
      o.kv_bool("throw", opj.at("throw").truthy());
      o.kv_bool("threw", threw);
      if (has_taken) o.kv_num("taken", taken);
      if (conv_src_empty >= 0) { o.kv_bool("src_after_empty", conv_src_empty == 1); o.kv_bool("srcempty", opj.at("srcempty").truthy()); }
      if (bad) o.kv_bool("bad", true);
      Observe(slots, o);
      EmitLife(o);
      o.end_obj();
    }
    o.end_arr();
    for (int s = 0; s < kSlots; s++) if (slots[s]) slots[s]->~Opt();
    o.key("end");
    o.begin_obj();
    EmitLife(o);
    o.end_obj();
  }
};

// ---- Result -------------------------------------------------------------------------
enum class RErr : int { None = 0, E1 = 1, E2 = 2 };
using Res = nop::Result<RErr, ElemA>;

static void ObserveRes(Res* slots[], JsonOut& o) {
  o.key("obs");
  o.begin_arr();
  for (int s = 0; s < kSlots; s++) {
    o.begin_obj();
    o.kv_bool("ex", slots[s] != nullptr);
    if (slots[s]) {
      Res& r = *slots[s];
      o.kv_bool("hv", r.has_value());
      o.kv_bool("he", r.has_error());
      o.kv_bool("bool", static_cast<bool>(r));
      o.kv_num("err", static_cast<int>(r.error()));
      if (r.has_value()) { if (r.get().magic != kAlive) g_life[0].dead_use++; o.kv_num("val", r.get().v); }
    }
    o.end_obj();
  }
  o.end_arr();
}

static void RunResult(const Json& ops, JsonOut& o) {
  alignas(Res) unsigned char storage[kSlots][sizeof(Res)];
  Res* slots[kSlots] = {nullptr, nullptr, nullptr};
  o.key("ops");
  o.begin_arr();
  for (auto& opj : ops.a) {
    const std::string& op = opj.at("op").s;
    const int s = static_cast<int>(opj.at("o").num(0));
    const int p = static_cast<int>(opj.at("p").num(0));
    const int x = static_cast<int>(opj.at("val").num(0));
    g_throw_countdown = opj.at("throw").truthy() ? 1 : 0;
    bool bad = false;
    int taken = 0;
    bool has_taken = false;
    if (g_throw_countdown && (op == "new_val" || op == "assign_val")) g_throw_countdown = 2;
    bool threw = Guarded([&]() {
      void* mem = storage[s];
      if (op.compare(0, 4, "new_") == 0) {
        if (slots[s]) { bad = true; return; }
        if (op == "new_empty") slots[s] = new (mem) Res();
        else if (op == "new_val") { ElemA e(x); slots[s] = new (mem) Res(e); }
        else if (op == "new_rval") slots[s] = new (mem) Res(ElemA(x));
        else if (op == "new_err") slots[s] = new (mem) Res(static_cast<RErr>(x));
        else if (op == "new_copy") { if (!slots[p]) { bad = true; return; } slots[s] = new (mem) Res(*slots[p]); }
        else if (op == "new_move") { if (!slots[p]) { bad = true; return; } slots[s] = new (mem) Res(std::move(*slots[p])); }
        else bad = true;
        return;
      }
      if (!slots[s]) { bad = true; return; }
      Res& v = *slots[s];
      if (op == "assign_copy") { if (!slots[p]) { bad = true; return; } v = *slots[p]; }
      else if (op == "assign_move") { if (!slots[p]) { bad = true; return; } v = std::move(*slots[p]); }
      else if (op == "assign_val") { ElemA e(x); v = e; }
      else if (op == "assign_rval") v = ElemA(x);
      else if (op == "assign_err") v = static_cast<RErr>(x);
      else if (op == "assign_own") { if (!v.has_value()) { bad = true; return; } v = v.get(); }
      else if (op == "clear") v.clear();
      else if (op == "take") { if (!v.has_value()) { bad = true; return; } ElemA t(v.take()); taken = t.v; has_taken = true; }
      else if (op == "destroy") { v.~Res(); slots[s] = nullptr; }
      else bad = true;
    });
    g_throw_countdown = 0;
    o.begin_obj();
    o.kv_str("op", op);
    o.kv_num("o", s);
    if (opj.has("p")) o.kv_num("p", p);
    if (opj.has("val")) o.kv_num("val", x);
    o.kv_bool("throw", opj.at("throw").truthy());
    o.kv_bool("threw", threw);
    if (has_taken) o.kv_num("taken", taken);
    if (bad) o.kv_bool("bad", true);
    ObserveRes(slots, o);
    EmitLife(o);
    o.end_obj();
  }
  o.end_arr();
  for (int s = 0; s < kSlots; s++) if (slots[s]) slots[s]->~Res();
  o.key("end");
  o.begin_obj();
  EmitLife(o);
  o.end_obj();
}

// ---- Result<E, void> (Status<void>): nothing or an error other than None ---------------
using ResV = nop::Status<void>;
static void RunResultVoid(const Json& ops, JsonOut& o) {
  alignas(ResV) unsigned char storage[kSlots][sizeof(ResV)];
  ResV* slots[kSlots] = {nullptr, nullptr, nullptr};
  o.key("ops");
  o.begin_arr();
  for (auto& opj : ops.a) {
    const std::string& op = opj.at("op").s;
    const int s = static_cast<int>(opj.at("o").num(0));
    const int p = static_cast<int>(opj.at("p").num(0));
    const int x = static_cast<int>(opj.at("val").num(0));
    bool bad = false;
    void* mem = storage[s];
    if (op.compare(0, 4, "new_") == 0) {
      if (slots[s]) bad = true;
      else if (op == "new_empty") slots[s] = new (mem) ResV();
      else if (op == "new_err") slots[s] = new (mem) ResV(static_cast<nop::ErrorStatus>(x));
      else if (op == "new_copy") { if (!slots[p]) bad = true; else slots[s] = new (mem) ResV(*slots[p]); }
      else if (op == "new_move") { if (!slots[p]) bad = true; else slots[s] = new (mem) ResV(std::move(*slots[p])); }
      else bad = true;
    } else if (!slots[s]) bad = true;
    else {
      ResV& v = *slots[s];
      if (op == "assign_copy") { if (!slots[p]) bad = true; else v = *slots[p]; }
      else if (op == "assign_move") { if (!slots[p]) bad = true; else v = std::move(*slots[p]); }
      else if (op == "assign_err") v = ResV(static_cast<nop::ErrorStatus>(x));
      else if (op == "clear") v.clear();
      else if (op == "destroy") { v.~ResV(); slots[s] = nullptr; }
      else bad = true;
    }
    o.begin_obj();
    o.kv_str("op", op);
    o.kv_num("o", s);
    if (opj.has("p")) o.kv_num("p", p);
    if (opj.has("val")) o.kv_num("val", x);
    o.kv_bool("throw", false);
    o.kv_bool("threw", false);
    if (bad) o.kv_bool("bad", true);
    o.key("obs");
    o.begin_arr();
    for (int i = 0; i < kSlots; i++) {
      o.begin_obj();
      o.kv_bool("ex", slots[i] != nullptr);
      if (slots[i]) {
        const ResV& r = *slots[i];
        o.kv_bool("hv", false);
        o.kv_bool("he", r.has_error());
        o.kv_bool("bool", static_cast<bool>(r));
        o.kv_num("err", static_cast<int>(r.error()));
      }
      o.end_obj();
    }
    o.end_arr();
    EmitLife(o);
    o.end_obj();
  }
  o.end_arr();
  for (int s = 0; s < kSlots; s++) if (slots[s]) slots[s]->~ResV();
  o.key("end");
  o.begin_obj();
  EmitLife(o);
  o.end_obj();
}

// ---- UniqueHandle -------------------------------------------------------------------
static const int kResources = 8;
static int g_closed[kResources];
static int g_released[kResources];
static int g_bad_close = 0;

struct CountingPolicy {
  using Type = int;
  static constexpr int Default() { return -1; }
  static bool IsValid(const int& v) { return v >= 0; }
  static void Close(int* v) {
    if (*v >= 0) { if (*v < kResources) g_closed[*v]++; else g_bad_close++; }
    *v = -1;
  }
  static int Release(int* v) {
    int t = *v;
    if (t >= 0 && t < kResources) g_released[t]++;
    *v = -1;
    return t;
  }
  static constexpr std::uint64_t HandleType() { return 9; }
};
using UH = nop::UniqueHandle<CountingPolicy>;

static void RunHandle(const Json& ops, JsonOut& o) {
  for (int i = 0; i < kResources; i++) g_closed[i] = g_released[i] = 0;
  g_bad_close = 0;
  alignas(UH) unsigned char storage[kSlots][sizeof(UH)];
  UH* slots[kSlots] = {nullptr, nullptr, nullptr};
  auto observe = [&](JsonOut& out) {
    out.key("obs");
    out.begin_arr();
    for (int s = 0; s < kSlots; s++) {
      out.begin_obj();
      out.kv_bool("ex", slots[s] != nullptr);
      if (slots[s]) { out.kv_num("val", slots[s]->get()); out.kv_bool("bool", static_cast<bool>(*slots[s])); }
      out.end_obj();
    }
    out.end_arr();
    out.key("closed"); out.begin_arr(); for (int i = 0; i < kResources; i++) out.num(g_closed[i]); out.end_arr();
    out.key("released"); out.begin_arr(); for (int i = 0; i < kResources; i++) out.num(g_released[i]); out.end_arr();
  };
  o.key("ops");
  o.begin_arr();
  for (auto& opj : ops.a) {
    const std::string& op = opj.at("op").s;
    const int s = static_cast<int>(opj.at("o").num(0));
    const int p = static_cast<int>(opj.at("p").num(0));
    const int r = static_cast<int>(opj.at("r").num(0));
    bool bad = false;
    int got = -9;
    void* mem = storage[s];
    if (op.compare(0, 4, "new_") == 0) {
      if (slots[s]) bad = true;
      else if (op == "new_empty") slots[s] = new (mem) UH();
      else if (op == "new_res") slots[s] = new (mem) UH(r);
      else if (op == "new_move") { if (!slots[p]) bad = true; else slots[s] = new (mem) UH(std::move(*slots[p])); }
      else bad = true;
    } else if (!slots[s]) bad = true;
    else if (op == "assign_move") { if (!slots[p]) bad = true; else *slots[s] = std::move(*slots[p]); }
    else if (op == "release") got = slots[s]->release();
    else if (op == "close") slots[s]->close();
    else if (op == "destroy") { slots[s]->~UH(); slots[s] = nullptr; }
    else bad = true;
    o.begin_obj();
    o.kv_str("op", op);
    o.kv_num("o", s);
    if (opj.has("p")) o.kv_num("p", p);
    if (opj.has("r")) o.kv_num("r", r);
    if (op == "release") o.kv_num("got", got);
    if (bad) o.kv_bool("bad", true);
    observe(o);
    o.end_obj();
  }
  o.end_arr();
  for (int s = 0; s < kSlots; s++) if (slots[s]) slots[s]->~UH();
  o.key("end");
  o.begin_obj();
  observe(o);
  o.kv_num("bad_close", g_bad_close);
  o.end_obj();
}

// UniqueFileHandle over real descriptors: closure is observed with fcntl().
static void RunFileHandle(const Json& ops, JsonOut& o) {
  using UF = nop::UniqueFileHandle;
  int fds[kResources];
  int released[kResources];
  // resource 0 is descriptor 0 itself (the lowest valid descriptor): standard input is parked and restored afterwards
  const int saved_stdin = ::dup(0);
  ::close(0);
  for (int i = 0; i < kResources; i++) { fds[i] = ::open("/dev/null", O_RDONLY); released[i] = 0; }
  auto res_of = [&](int fd) { for (int i = 0; i < kResources; i++) if (fds[i] == fd) return i; return fd < 0 ? -1 : -2; };
  alignas(UF) unsigned char storage[kSlots][sizeof(UF)];
  UF* slots[kSlots] = {nullptr, nullptr, nullptr};
  auto observe = [&](JsonOut& out) {
    out.key("obs");
    out.begin_arr();
    for (int s = 0; s < kSlots; s++) {
      out.begin_obj();
      out.kv_bool("ex", slots[s] != nullptr);
      if (slots[s]) { out.kv_num("val", res_of(slots[s]->get())); out.kv_bool("bool", static_cast<bool>(*slots[s])); }
      out.end_obj();
    }
    out.end_arr();
    out.key("closed"); out.begin_arr(); for (int i = 0; i < kResources; i++) out.num(::fcntl(fds[i], F_GETFD) == -1 ? 1 : 0); out.end_arr();
    out.key("released"); out.begin_arr(); for (int i = 0; i < kResources; i++) out.num(released[i]); out.end_arr();
  };
  o.key("ops");
  o.begin_arr();
  for (auto& opj : ops.a) {
    const std::string& op = opj.at("op").s;
    const int s = static_cast<int>(opj.at("o").num(0));
    const int p = static_cast<int>(opj.at("p").num(0));
    const int r = static_cast<int>(opj.at("r").num(0));
    bool bad = false;
    int got = -9;
    void* mem = storage[s];
    if (op.compare(0, 4, "new_") == 0) {
      if (slots[s]) bad = true;
      else if (op == "new_empty") slots[s] = new (mem) UF();
      else if (op == "new_res") slots[s] = new (mem) UF(fds[r]);
      else if (op == "new_move") { if (!slots[p]) bad = true; else slots[s] = new (mem) UF(std::move(*slots[p])); }
      else bad = true;
    } else if (!slots[s]) bad = true;
    else if (op == "assign_move") { if (!slots[p]) bad = true; else *slots[s] = std::move(*slots[p]); }
    else if (op == "release") { int fd = slots[s]->release(); got = res_of(fd); if (got >= 0) released[got]++; }
    else if (op == "close") slots[s]->close();
    else if (op == "destroy") { slots[s]->~UF(); slots[s] = nullptr; }
    else bad = true;
    o.begin_obj();
    o.kv_str("op", op);
    o.kv_num("o", s);
    if (opj.has("p")) o.kv_num("p", p);
    if (opj.has("r")) o.kv_num("r", r);
    if (op == "release") o.kv_num("got", got);
    if (bad) o.kv_bool("bad", true);
    observe(o);
    o.end_obj();
  }
  o.end_arr();
  for (int s = 0; s < kSlots; s++) if (slots[s]) slots[s]->~UF();
  o.key("end");
  o.begin_obj();
  observe(o);
  o.kv_num("bad_close", 0);
  o.end_obj();
  for (int i = 0; i < kResources; i++) if (::fcntl(fds[i], F_GETFD) != -1) ::close(fds[i]);
  if (saved_stdin >= 0) { ::dup2(saved_stdin, 0); ::close(saved_stdin); }
}

// FdReader / FdWriter own their descriptor like a UniqueHandle (move construction, move assignment, Clear(),
// Release(), destruction); they offer no accessor, so what is observed is the descriptor table: which of the
// descriptors handed out are closed, and - since a closed number is immediately re-occupied by a sentinel
// descriptor of the harness - whether anybody closed a descriptor a second time ("stolen": a sentinel found closed).
template <typename F>
static void RunFdOwner(const Json& ops, JsonOut& o) {
  int fds[kResources];
  int released[kResources];
  int closed[kResources];
  int sentinel[kResources];
  for (int i = 0; i < kResources; i++) { fds[i] = ::open("/dev/null", O_RDWR); released[i] = 0; closed[i] = 0; sentinel[i] = -1; }
  alignas(F) unsigned char storage[kSlots][sizeof(F)];
  F* slots[kSlots] = {nullptr, nullptr, nullptr};
  int stolen = 0;
  auto settle = [&]() {
    for (int i = 0; i < kResources; i++) {
      if (sentinel[i] >= 0 && ::fcntl(sentinel[i], F_GETFD) == -1) { stolen++; sentinel[i] = -2; }
      if (sentinel[i] == -1 && !released[i] && ::fcntl(fds[i], F_GETFD) == -1) {
        closed[i]++;
        // take the freed number back at once: a second close of it would hit the sentinel
        int got[64], n = 0, fd;
        while (n < 64 && (fd = ::open("/dev/null", O_RDONLY)) >= 0 && fd != fds[i]) got[n++] = fd;
        sentinel[i] = fd == fds[i] ? fd : -3;
        for (int k = 0; k < n; k++) ::close(got[k]);
      }
    }
  };
  auto observe = [&](JsonOut& out) {
    out.key("closed"); out.begin_arr(); for (int i = 0; i < kResources; i++) out.num(closed[i]); out.end_arr();
    out.key("released"); out.begin_arr(); for (int i = 0; i < kResources; i++) out.num(released[i]); out.end_arr();
    out.kv_num("stolen", stolen);
  };
  o.key("ops");
  o.begin_arr();
  for (auto& opj : ops.a) {
    const std::string& op = opj.at("op").s;
    const int s = static_cast<int>(opj.at("o").num(0));
    const int p = static_cast<int>(opj.at("p").num(0));
    const int r = static_cast<int>(opj.at("r").num(0));
    bool bad = false;
    int got = -9;
    void* mem = storage[s];
    if (op.compare(0, 4, "new_") == 0) {
      if (slots[s]) bad = true;
      else if (op == "new_empty") slots[s] = new (mem) F();
      else if (op == "new_res") slots[s] = new (mem) F(fds[r]);
      else if (op == "new_move") { if (!slots[p]) bad = true; else slots[s] = new (mem) F(std::move(*slots[p])); }
      else bad = true;
    } else if (!slots[s]) bad = true;
    else if (op == "assign_move") { if (!slots[p]) bad = true; else *slots[s] = std::move(*slots[p]); }
    else if (op == "release") {
      int fd = slots[s]->Release();
      got = -1;
      for (int i = 0; i < kResources; i++) if (fd >= 0 && fds[i] == fd) got = i;
      if (got >= 0) released[got]++;
    }
    else if (op == "close") slots[s]->Clear();
    else if (op == "destroy") { slots[s]->~F(); slots[s] = nullptr; }
    else bad = true;
    settle();
    o.begin_obj();
    o.kv_str("op", op);
    o.kv_num("o", s);
    if (opj.has("p")) o.kv_num("p", p);
    if (opj.has("r")) o.kv_num("r", r);
    if (op == "release") o.kv_num("got", got);
    if (bad) o.kv_bool("bad", true);
    observe(o);
    o.end_obj();
  }
  o.end_arr();
  for (int s = 0; s < kSlots; s++) if (slots[s]) { slots[s]->~F(); settle(); }
  o.key("end");
  o.begin_obj();
  observe(o);
  o.end_obj();
  for (int i = 0; i < kResources; i++) {
    if (sentinel[i] >= 0) ::close(sentinel[i]);
    else if (::fcntl(fds[i], F_GETFD) != -1) ::close(fds[i]);
  }
}

static void CmdObj(const Json& cmd, JsonOut& o) {
  const std::string& m = cmd.at("machine").s;
  o.kv_str("e", "OBJ");
  o.kv_str("machine", m);
  for (int i = 0; i < 3; i++) g_life[i] = Life();
  if (m == "variant") RunVariant(cmd.at("ops"), o);
  else if (m == "optional") OptMachine<nop::Optional<ElemA>, ElemA>::Run(cmd.at("ops"), o);
  else if (m == "optional_int") OptMachine<nop::Optional<int>, int>::Run(cmd.at("ops"), o);
  else if (m == "entry") OptMachine<nop::Entry<ElemA, 5>, ElemA>::Run(cmd.at("ops"), o);
  else if (m == "result") RunResult(cmd.at("ops"), o);
  else if (m == "result_void") RunResultVoid(cmd.at("ops"), o);
  else if (m == "uhandle") RunHandle(cmd.at("ops"), o);
  else if (m == "ufile") RunFileHandle(cmd.at("ops"), o);
  else if (m == "fdreader") RunFdOwner<nop::FdReader>(cmd.at("ops"), o);
  else if (m == "fdwriter") RunFdOwner<nop::FdWriter>(cmd.at("ops"), o);
  else o.kv_bool("badmachine", true);
}

// ---- Optional relational operators -----------------------------------------------------
// {"c":"cmp"}: all 18 operators on all operand states (empty, 1, 2).
static void CmdCmp(const Json&, JsonOut& o) {
  o.kv_str("e", "CMP");
  o.key("rows");
  o.begin_arr();
  const int states[3] = {-1, 1, 2};  // -1: empty
  for (int a : states) for (int b : states) {
    nop::Optional<int> oa, ob;
    if (a >= 0) oa = a;
    if (b >= 0) ob = b;
    o.begin_obj();
    o.kv_num("a", a);
    o.kv_num("b", b);
    o.key("oo"); o.begin_arr();
    o.boolean(oa == ob); o.boolean(oa != ob); o.boolean(oa < ob); o.boolean(oa > ob); o.boolean(oa <= ob); o.boolean(oa >= ob);
    o.end_arr();
    if (b >= 0) {  // Optional-value
      o.key("ov"); o.begin_arr();
      o.boolean(oa == b); o.boolean(oa != b); o.boolean(oa < b); o.boolean(oa > b); o.boolean(oa <= b); o.boolean(oa >= b);
      o.end_arr();
    }
    if (a >= 0) {  // value-Optional
      o.key("vo"); o.begin_arr();
      o.boolean(a == ob); o.boolean(a != ob); o.boolean(a < ob); o.boolean(a > ob); o.boolean(a <= ob); o.boolean(a >= ob);
      o.end_arr();
    }
    o.end_obj();
  }
  o.end_arr();
}

// {"c":"msg"}: Status<T>::GetErrorMessage for every ErrorStatus and one out-of-range value.
static void CmdMsg(const Json&, JsonOut& o) {
  o.kv_str("e", "MSG");
  o.key("rows");
  o.begin_arr();
  for (int e = 0; e <= 19; e++) {
    nop::Status<int> st{static_cast<nop::ErrorStatus>(e)};
    const char* m = st.GetErrorMessage();
    o.begin_obj();
    o.kv_num("code", e);
    o.kv_bool("null", m == nullptr);
    o.kv_str("msg", m ? m : "");
    o.kv_bool("has_error", st.has_error());
    o.end_obj();
  }
  // the message of a Status<void> holding a value (no error)
  o.end_arr();
}

static CommandRegistrar r_obj("obj", CmdObj), r_cmp("cmp", CmdCmp), r_msg("msg", CmdMsg);

}  // namespace vf
