// "tl" command (C19): real threads performing ThreadLocal operations on shared
// slot types and codec round trips on their own objects, either in lock step
// with a schedule (emitted by TLC from MC_Threads) or free-running (under TSan).
#include <atomic>
#include <condition_variable>
#include <array>
#include <limits>
#include <map>
#include <mutex>
#include <tuple>
#include <thread>

#include <nop/serializer.h>
#include <nop/structure.h>
#include <nop/table.h>
#include <nop/types/optional.h>
#include <nop/types/result.h>
#include <nop/types/thread_local.h>
#include <nop/types/variant.h>
#include <nop/utility/buffer_reader.h>
#include <nop/utility/buffer_writer.h>

#include <memory>
#include <sstream>

#include <nop/utility/constexpr_buffer_writer.h>
#include <nop/utility/fd_reader.h>
#include <nop/utility/fd_writer.h>
#include <unistd.h>
#include <nop/utility/pedantic_buffer_reader.h>
#include <nop/utility/pedantic_buffer_writer.h>
#include <nop/utility/stream_reader.h>
#include <nop/utility/stream_writer.h>
#include "ops.h"

namespace vf {
namespace { struct TlTable; struct TlStruct; struct TlLbuf; }
}
namespace vf {
void RunRpcCalls(const std::string& iface, const Json& calls, JsonOut& o);
void RunIoCommand(const Json& cmd, JsonOut& o);
namespace {

// same shapes as the pool types "TA", "SA", "SL2" (their schemas are looked up by these ids)
struct TlTable {
  nop::Entry<std::uint8_t, 0> e0;
  nop::Entry<std::string, 1> e1;
  NOP_TABLE(TlTable, e0, e1);
};
struct TlStruct {
  std::uint8_t m0{};
  std::string m1;
  NOP_STRUCTURE(TlStruct, m0, m1);
};
struct TlLbuf {
  std::uint8_t d0[4]{};
  std::uint16_t c0{};
  NOP_STRUCTURE(TlLbuf, (d0, c0));
};
enum class TlErr : std::uint8_t { None = 0, A = 1, B = 2 };

struct Step {
  int t;
  std::string op;
  int slot;
  int val;
  int obs;
  std::string extra;   // JSON fields of a codec step
};

// slots: 0 -> ThreadLocal<int, IndexSlot<0>>, 1 -> ThreadLocal<int, IndexSlot<1>>, 2 -> ThreadLocal<long, IndexSlot<0>>
// The abstract value of a slot is an integer; TlVal<V> maps it to and from the slot's value type.
template <typename V> struct TlVal {
  static V from(int v) { return static_cast<V>(v); }
  static int to(const V& v) { return static_cast<int>(v); }
};
template <> struct TlVal<std::string> {
  static std::string from(int v) { return "value-" + std::to_string(v) + "-with-a-tail-long-enough-to-live-on-the-heap"; }
  static int to(const std::string& s) { return s.size() > 6 ? atoi(s.c_str() + 6) : -2; }
};
template <> struct TlVal<std::vector<int>> {
  static std::vector<int> from(int v) { return std::vector<int>(3, v); }
  static int to(const std::vector<int>& s) { return s.size() == 3 && s[0] == s[2] ? s[1] : -2; }
};
template <> struct TlVal<std::unique_ptr<int>> {
  static std::unique_ptr<int> from(int v) { return std::make_unique<int>(v); }
  static int to(const std::unique_ptr<int>& s) { return s ? *s : -2; }
};
template <typename TL, typename V>
int InitFrom(V v, std::true_type) { const V& cv = v; TL h(cv); return TlVal<V>::to(h.Get()); }
template <typename TL, typename V>
int InitFrom(V v, std::false_type) { TL h(std::move(v)); return TlVal<V>::to(h.Get()); }
template <typename TL, typename V>
int InitFromMutable(V v, std::true_type) { V& mv = v; TL h(mv); return TlVal<V>::to(h.Get()); }
template <typename TL, typename V>
int InitFromMutable(V v, std::false_type) { TL h(std::move(v)); return TlVal<V>::to(h.Get()); }
template <typename TL, typename V>
int InitializeFrom(V v, std::true_type) { const V& cv = v; TL h; h.Initialize(cv); return TlVal<V>::to(h.Get()); }
template <typename TL, typename V>
int InitializeFrom(V v, std::false_type) { TL h; h.Initialize(std::move(v)); return TlVal<V>::to(h.Get()); }
template <typename TL, typename V>
int TlOp(const std::string& op, int val) {
  using C = TlVal<V>;
  // the initial value is handed over in the three value categories a caller may use (rvalue, const lvalue, non-const
  // lvalue - copyable value types only): which overload takes it must not matter
  const int form = (val + 1) % 3;     // 1: const lvalue, 2: non-const lvalue, 0: rvalue
  if (op == "init") {
    if (form == 1) return InitFrom<TL, V>(C::from(val), std::is_copy_constructible<V>{});
    if (form == 2) return InitFromMutable<TL, V>(C::from(val), std::is_copy_constructible<V>{});
    TL h(C::from(val));
    return C::to(h.Get());
  }
  // a handle constructed without arguments leaves an empty slot empty; Initialize() then applies the same rule
  if (op == "initialize") {
    if (form == 1) return InitializeFrom<TL, V>(C::from(val), std::is_copy_constructible<V>{});
    TL h;
    h.Initialize(C::from(val));
    return C::to(h.Get());
  }
  if (op == "set") { TL h(C::from(val)); h.Get() = C::from(val); return C::to(h.Get()); }
  if (op == "clear") { TL h(C::from(0)); h.Clear(); return -1; }
  return -1;
}
int RunTl(const std::string& op, int slot, int val) {
  using S0 = nop::ThreadLocal<int, nop::ThreadLocalIndexSlot<0>>;
  using S1 = nop::ThreadLocal<int, nop::ThreadLocalIndexSlot<1>>;
  using S2 = nop::ThreadLocal<long, nop::ThreadLocalIndexSlot<0>>;
  // the other ways of naming a slot, all over int: the default slot, a (type, index) slot and a type slot - each must be
  // storage of its own, distinct from the index slots above
  using S3 = nop::ThreadLocal<int>;
  using S4 = nop::ThreadLocal<int, nop::ThreadLocalSlot<void, 1>>;
  using S5 = nop::ThreadLocal<int, nop::ThreadLocalTypeSlot<long>>;
  // value types with a destructor of their own (heap-owning, move-only): storage that must be destroyed at thread exit
  using S6 = nop::ThreadLocal<std::string, nop::ThreadLocalIndexSlot<0>>;
  using S7 = nop::ThreadLocal<std::vector<int>, nop::ThreadLocalIndexSlot<0>>;
  using S8 = nop::ThreadLocal<std::unique_ptr<int>>;
  switch (slot) {
    case 0: return TlOp<S0, int>(op, val);
    case 1: return TlOp<S1, int>(op, val);
    case 2: return TlOp<S2, long>(op, val);
    case 3: return TlOp<S3, int>(op, val);
    case 4: return TlOp<S4, int>(op, val);
    case 5: return TlOp<S5, int>(op, val);
    case 6: return TlOp<S6, std::string>(op, val);
    case 7: return TlOp<S7, std::vector<int>>(op, val);
    default: return TlOp<S8, std::unique_ptr<int>>(op, val);
  }
}

// One codec round trip on objects owned by the calling thread; the k-th variation. |g_form| selects how the
// Serializer / Deserializer hold their writer / reader: 0 by value, 1 by pointer, 2 by std::unique_ptr
// (base/serializer.h has one specialization for each); 3..5 other library writer / reader classes by value.
thread_local int g_form = 0;
thread_local bool g_cuts = false;     // forms command: also every strict prefix / every smaller capacity, directly on the library classes
template <typename R, typename T, typename... A>
int CutStatus(A&&... a) {
  T back{};
  nop::Deserializer<R> des{std::forward<A>(a)...};
  return Code(des.Read(&back));
}
template <typename W, typename T>
int CapStatus(const T& v, size_t cap) {
  std::unique_ptr<uint8_t[]> heap(new uint8_t[cap ? cap : 1]);    // exactly sized: an overrun is seen by the sanitizer builds
  nop::Serializer<W> ser{heap.get(), cap};
  return Code(ser.Write(v));
}
// The unchecked BufferWriter behind each of the three ways a Serializer holds its writer: Serializer::Write must call
// Prepare(GetSize) first and refuse; bytes behind the capacity are guarded (1000 + status: the guard was damaged).
template <typename T>
int CapStatusUnchecked(const T& v, size_t cap, int form) {
  const size_t guard = 600;
  std::unique_ptr<uint8_t[]> heap(new uint8_t[cap + guard]);
  memset(heap.get(), 0xEE, cap);
  memset(heap.get() + cap, 0xA5, guard);
  int st;
  if (form == 0) {
    nop::Serializer<nop::BufferWriter> ser{heap.get(), cap};
    st = Code(ser.Write(v));
  } else if (form == 1) {
    nop::BufferWriter w{heap.get(), cap};
    nop::Serializer<nop::BufferWriter*> ser{&w};
    st = Code(ser.Write(v));
  } else {
    nop::Serializer<std::unique_ptr<nop::BufferWriter>> ser{std::make_unique<nop::BufferWriter>(heap.get(), cap)};
    st = Code(ser.Write(v));
  }
  for (size_t i = 0; i < guard; i++) if (heap[cap + i] != 0xA5) return 1000 + st;
  return st;
}
template <typename T>
void EmitCuts(const T& v, const uint8_t* buf, size_t n, JsonOut& o) {
  // typed block transfers reach BufferReader / PedanticBufferReader / StreamReader unchanged here (no harness layer);
  // BufferReader also behind a pointer and a unique_ptr (the other two Deserializer specializations)
  o.key("cuts");
  o.begin_arr();
  for (size_t k = 0; k < n; k++) {
    std::unique_ptr<uint8_t[]> heap(new uint8_t[k ? k : 1]);
    if (k) memcpy(heap.get(), buf, k);
    o.begin_arr();
    o.num(CutStatus<nop::BufferReader, T>(heap.get(), k));
    o.num(CutStatus<nop::PedanticBufferReader, T>(heap.get(), k));
    o.num(CutStatus<nop::StreamReader<std::stringstream>, T>(std::string(reinterpret_cast<const char*>(heap.get()), k)));
    { nop::BufferReader r{heap.get(), k}; o.num(CutStatus<nop::BufferReader*, T>(&r)); }
    o.num(CutStatus<std::unique_ptr<nop::BufferReader>, T>(std::make_unique<nop::BufferReader>(heap.get(), k)));
    o.end_arr();
  }
  o.end_arr();
  o.key("caps");
  o.begin_arr();
  for (size_t c = 0; c < n; c++) {
    o.begin_arr();
    o.num(CapStatus<nop::PedanticBufferWriter, T>(v, c));
    o.num(CapStatus<nop::ConstexprBufferWriter, T>(v, c));
    for (int form = 0; form < 3; form++) o.num(CapStatusUnchecked(v, c, form));
    o.end_arr();
  }
  o.end_arr();
}
// tables need Skip, which the descriptor classes do not have
template <typename T> struct FdCapable : std::true_type {};
template <> struct FdCapable<TlTable> : std::false_type {};
template <typename T>
void FdRoundTrip(const T&, uint8_t*, size_t, T*, nop::Status<void>*, nop::Status<void>*, size_t*, size_t*, size_t*, std::false_type) {}
// descriptor classes over a pipe; the reader receives its descriptor by move assignment into a default-constructed
// Deserializer (a long-lived connection object that is handed a new descriptor)
template <typename T>
void FdRoundTrip(const T& v, uint8_t* buf, size_t cap, T* back, nop::Status<void>* st, nop::Status<void>* st2, size_t* n, size_t* size,
                 size_t* used, std::true_type) {
  {
    nop::Serializer<nop::BufferWriter> ref{buf, cap};
    (void)ref.Write(v);
    *n = ref.writer().size();                    // the bytes, for the record (the pipe's content is compared through v2)
  }
  int p[2] = {-1, -1};
  if (::pipe(p) != 0) { *st = nop::ErrorStatus::SystemError; return; }
  {
    nop::Serializer<nop::FdWriter> ser{p[1]};
    *size = ser.GetSize(v);
    *st = ser.Write(v);
  }                                              // the writer closes its end: the reader sees end of file after the value
  nop::Deserializer<nop::FdReader> des;
  des.reader() = nop::FdReader{p[0]};
  *st2 = des.Read(back);
  std::uint8_t extra_byte = 0;
  *used = (*st2 && !des.reader().Read(&extra_byte)) ? *n : *n + 1;     // nothing may be left over
}
template <typename T>
void RoundTrip(const char* tid, const T& v, std::string* extra) {
  uint8_t buf[512];
  nop::Status<void> st, st2;
  size_t n = 0, size = 0, used = 0;
  T back{};
  if (g_form == 1) {
    nop::BufferWriter w{buf, sizeof buf};
    nop::Serializer<nop::BufferWriter*> ser{&w};
    size = ser.GetSize(v);
    st = ser.Write(v);
    n = w.size();
    nop::BufferReader r{buf, n};
    nop::Deserializer<nop::BufferReader*> des{&r};
    st2 = des.Read(&back);
    used = n - r.remaining();
  } else if (g_form == 2) {
    nop::Serializer<std::unique_ptr<nop::BufferWriter>> ser{std::make_unique<nop::BufferWriter>(buf, sizeof buf)};
    size = ser.GetSize(v);
    st = ser.Write(v);
    n = ser.writer().size();
    nop::Deserializer<std::unique_ptr<nop::BufferReader>> des{std::make_unique<nop::BufferReader>(buf, n)};
    st2 = des.Read(&back);
    used = n - des.reader().remaining();
  } else if (g_form == 3) {
    // the other library classes directly (typed block transfers reach them unchanged, no harness layer in between)
    nop::Serializer<nop::ConstexprBufferWriter> ser{buf, sizeof buf};
    size = ser.GetSize(v);
    st = ser.Write(v);
    n = ser.writer().size();
    nop::Deserializer<nop::PedanticBufferReader> des{buf, n};
    st2 = des.Read(&back);
    used = n - des.reader().remaining();
  } else if (g_form == 4) {
    nop::Serializer<nop::PedanticBufferWriter> ser{buf, sizeof buf};
    size = ser.GetSize(v);
    st = ser.Write(v);
    n = ser.writer().size();
    nop::Deserializer<nop::BufferReader> des{buf, n};
    st2 = des.Read(&back);
    used = n - des.reader().remaining();
  } else if (g_form == 6 && FdCapable<T>::value) {
    FdRoundTrip(v, buf, sizeof buf, &back, &st, &st2, &n, &size, &used, FdCapable<T>{});
  } else if (g_form == 5) {
    nop::Serializer<nop::StreamWriter<std::stringstream>> ser;
    size = ser.GetSize(v);
    st = ser.Write(v);
    const std::string bytes = ser.writer().stream().str();
    n = bytes.size() < sizeof buf ? bytes.size() : sizeof buf;
    memcpy(buf, bytes.data(), n);
    nop::Deserializer<nop::StreamReader<std::stringstream>> des{bytes};
    st2 = des.Read(&back);
    used = static_cast<size_t>(des.reader().stream().tellg());
  } else {
    nop::Serializer<nop::BufferWriter> ser{buf, sizeof buf};
    size = ser.GetSize(v);
    st = ser.Write(v);
    n = ser.writer().size();
    nop::Deserializer<nop::BufferReader> des{buf, n};
    st2 = des.Read(&back);
    used = n - des.reader().remaining();
  }
  JsonOut o;
  o.kv_str("tid", tid);
  o.kv_num("form", g_form);
  o.key("v"); Abs<T>::to(v, o);
  o.kv_num("st", Code(st));
  o.kv_num("size", static_cast<long long>(size));
  o.key("bytes"); o.bytes(buf, n);
  o.kv_num("st2", Code(st2));
  o.kv_num("used", static_cast<long long>(used));
  o.key("v2"); Abs<T>::to(back, o);
  if (g_cuts && Code(st) == 0) EmitCuts(v, buf, n, o);
  *extra = o.s;
}
}  // namespace
template <> struct Abs<TlTable, void> {
  static void to(const TlTable& v, JsonOut& o) { o.begin_obj(); o.key("t"); o.begin_arr(); EntryTo(v.e0, o); EntryTo(v.e1, o); o.end_arr(); o.end_obj(); }
  static bool from(const Json&, TlTable&) { return false; }
};
template <> struct Abs<TlStruct, void> {
  static void to(const TlStruct& v, JsonOut& o) { o.begin_obj(); o.key("m"); o.begin_arr(); Abs<std::uint8_t>::to(v.m0, o); Abs<std::string>::to(v.m1, o); o.end_arr(); o.end_obj(); }
  static bool from(const Json&, TlStruct&) { return false; }
};
template <> struct Abs<TlLbuf, void> {
  static void to(const TlLbuf& v, JsonOut& o) { o.begin_obj(); o.key("m"); o.begin_arr(); LbufTo(v.d0, v.c0, 4, o); o.end_arr(); o.end_obj(); }
  static bool from(const Json&, TlLbuf&) { return false; }
};
namespace {
void RunCodec(int t, int k, std::string* extra) {
  g_form = (k / 16 + t) % 7;
  // four more encodings with 8-, 4- and 2-byte block elements (typed block transfers of every width reach the library
  // classes directly in the forms above)
  switch (k % 16) {
    case 12: { std::vector<std::uint64_t> v; for (int i = 0; i < 2 + (k % 3); i++) v.push_back(0x0102030405060708ull * static_cast<unsigned>(t + 1) + static_cast<unsigned>(i)); RoundTrip<std::vector<std::uint64_t>>("vec<u64>", v, extra); return; }
    case 13: { std::array<std::uint64_t, 2> a{{~0ull - static_cast<unsigned>(t), 1ull << (8 * (k % 8))}}; RoundTrip<decltype(a)>("arr<u64,2>", a, extra); return; }
    case 14: { std::u16string u; for (int i = 0; i < 1 + (k % 4); i++) u.push_back(static_cast<char16_t>(0x4e00 + 7 * t + i)); RoundTrip<std::u16string>("str16", u, extra); return; }
    case 15: { std::vector<std::uint32_t> v; for (int i = 0; i < 3; i++) v.push_back(0x80000000u + static_cast<unsigned>(1000 * t + i)); RoundTrip<std::vector<std::uint32_t>>("vec<u32>", v, extra); return; }
    default: break;
  }
  switch (k % 12) {
    case 4: { std::map<std::uint32_t, std::string> m; for (int i = 0; i < 1 + (k % 3); i++) m[static_cast<std::uint32_t>(1000 * t + i)] = std::string(static_cast<size_t>(i + 1), static_cast<char>('A' + t)); RoundTrip<std::map<std::uint32_t, std::string>>("map<u32,str8>", m, extra); return; }
    case 5: { TlTable tb; tb.e0 = static_cast<std::uint8_t>(200 + t); if (k % 2) tb.e1 = std::string("e") + static_cast<char>('0' + t); RoundTrip<TlTable>("TA", tb, extra); return; }
    case 6: { nop::Optional<std::string> o; if (k % 24 < 12) o = std::string(static_cast<size_t>(2 + t), 'o'); RoundTrip<nop::Optional<std::string>>("opt<str8>", o, extra); return; }
    case 7: { std::tuple<std::uint8_t, std::string, std::vector<std::uint8_t>> tp{static_cast<std::uint8_t>(t), std::string("tp"), {static_cast<std::uint8_t>(k), 255}}; RoundTrip<decltype(tp)>("tup<u8,str8,vec<u8>>", tp, extra); return; }
    case 8: { std::array<std::int32_t, 3> a{{t, -k, 70000 * (t + 1)}}; RoundTrip<decltype(a)>("arr<i32,3>", a, extra); return; }
    case 9: { TlStruct sv; sv.m0 = static_cast<std::uint8_t>(130 + t); sv.m1 = std::string(static_cast<size_t>(1 + k % 4), 's'); RoundTrip<TlStruct>("SA", sv, extra); return; }
    case 10: { TlLbuf lb; lb.c0 = static_cast<std::uint16_t>(k % 5); for (int i = 0; i < 4; i++) lb.d0[i] = static_cast<std::uint8_t>(16 * t + i); RoundTrip<TlLbuf>("SL2", lb, extra); return; }
    case 11: { nop::Result<TlErr, std::uint32_t> r; if (k % 24 < 12) r = static_cast<std::uint32_t>(70000u + t); else r = TlErr::B; RoundTrip<decltype(r)>("res<Erru8,u32>", r, extra); return; }
    default: break;
  }
  switch (k % 4) {
    case 0: RoundTrip<std::uint32_t>("u32", static_cast<std::uint32_t>(1000003u * (t + 1) + k), extra); break;
    case 1: RoundTrip<std::string>("str8", std::string(static_cast<size_t>(3 + (k + t) % 5), static_cast<char>('a' + t)), extra); break;
    case 2: { std::vector<std::uint16_t> v; for (int i = 0; i < 2 + (k % 3); i++) v.push_back(static_cast<std::uint16_t>(300 * t + i + k)); RoundTrip<std::vector<std::uint16_t>>("vec<u16>", v, extra); break; }
    default: { nop::Variant<std::int32_t, std::string> v; if (k % 8 < 4) v = std::int32_t{t * 77 - k}; else v = std::string("t") + static_cast<char>('0' + t); RoundTrip<nop::Variant<std::int32_t, std::string>>("var<i32,str8>", v, extra); break; }
  }
}

// One RPC connection owned by the calling thread (its own pipes, bindings and handler objects).
void RunRpcStep(const Json& opj, std::string* extra) {
  JsonOut o;
  o.kv_str("iface", opj.at("iface").s);
  RunRpcCalls(opj.at("iface").s, opj.at("calls"), o);
  *extra = o.s;
}

// One sequence of primitive reader / writer calls on an object owned by the calling thread (padding values differ
// between threads: a writer must produce its own padding whatever other threads are writing).
void RunIoStep(const Json& opj, std::string* extra) {
  JsonOut o;
  RunIoCommand(opj.at("cmd"), o);
  *extra = o.s;
}

void EmitStep(const Step& s, JsonOut& o) {
  o.begin_obj();
  o.kv_num("t", s.t);
  o.kv_str("op", s.op);
  o.kv_num("slot", s.slot);
  o.kv_num("val", s.val);
  o.kv_num("obs", s.obs);
  if (!s.extra.empty()) { o.comma(); o.s += s.extra; }
  o.end_obj();
}

void CmdTl(const Json& cmd, JsonOut& o) {
  const std::string mode = cmd.at("mode").s;
  const int nthreads = static_cast<int>(cmd.at("threads").num(2));
  o.kv_str("e", "TL");
  o.kv_str("mode", mode);
  o.kv_num("threads", nthreads);
  if (mode == "lockstep") {
    const Json& sched = cmd.at("schedule");
    std::mutex mu;
    std::condition_variable cv;
    size_t turn = 0;
    std::vector<Step> log;
    std::vector<std::thread> ts;
    for (int t = 0; t < nthreads; t++) {
      ts.emplace_back([&, t]() {
        std::unique_lock<std::mutex> lk(mu);
        while (true) {
          cv.wait(lk, [&]() { return turn >= sched.a.size() || sched.a[turn].at("t").num() == t; });
          if (turn >= sched.a.size()) return;
          const Json& opj = sched.a[turn];
          Step s{t, opj.at("op").s, static_cast<int>(opj.at("slot").num()), static_cast<int>(opj.at("val").num()), -1, ""};
          if (s.op == "codec") RunCodec(t, static_cast<int>(turn), &s.extra);
          else if (s.op == "rpc") RunRpcStep(opj, &s.extra);
          else if (s.op == "io") RunIoStep(opj, &s.extra);
          else s.obs = RunTl(s.op, s.slot, s.val);
          log.push_back(s);
          turn++;
          cv.notify_all();
        }
      });
    }
    for (auto& th : ts) th.join();
    o.key("steps");
    o.begin_arr();
    for (auto& s : log) EmitStep(s, o);
    o.end_arr();
  } else {
    const Json& programs = cmd.at("programs");
    std::atomic<bool> go{false};
    std::vector<std::vector<Step>> logs(static_cast<size_t>(nthreads));
    std::vector<std::thread> ts;
    for (int t = 0; t < nthreads; t++) {
      ts.emplace_back([&, t]() {
        while (!go.load(std::memory_order_acquire)) std::this_thread::yield();
        const Json& prog = programs.a[static_cast<size_t>(t) % programs.a.size()];
        int k = 0;
        for (auto& opj : prog.a) {
          Step s{t, opj.at("op").s, static_cast<int>(opj.at("slot").num()), static_cast<int>(opj.at("val").num()), -1, ""};
          if (s.op == "codec") RunCodec(t, k, &s.extra);
          else if (s.op == "rpc") RunRpcStep(opj, &s.extra);
          else if (s.op == "io") RunIoStep(opj, &s.extra);
          else s.obs = RunTl(s.op, s.slot, s.val);
          logs[static_cast<size_t>(t)].push_back(s);
          k++;
        }
      });
    }
    go.store(true, std::memory_order_release);
    for (auto& th : ts) th.join();
    o.key("per");
    o.begin_arr();
    for (auto& lg : logs) {
      o.begin_arr();
      for (auto& s : lg) EmitStep(s, o);
      o.end_arr();
    }
    o.end_arr();
  }
}

// {"c":"forms","n":N}: the codec round trips of RunCodec for k = 0..N-1 in every Serializer / Deserializer form,
// on the main thread (C01 / C03 / C06: the three specializations must behave alike).
void CmdForms(const Json& cmd, JsonOut& o) {
  const int n = static_cast<int>(cmd.at("n").num(36));
  g_cuts = cmd.has("cuts") && cmd.at("cuts").truthy();
  o.kv_str("e", "FORMS");
  o.key("steps");
  o.begin_arr();
  for (int t = 0; t < 6; t++) {
    for (int k = 0; k < n; k++) {
      std::string extra;
      RunCodec(t, k, &extra);
      o.begin_obj();
      o.s += extra;
      o.end_obj();
    }
  }
  o.end_arr();
  g_cuts = false;
}

CommandRegistrar r_tl("tl", CmdTl), r_forms("forms", CmdForms);

}  // namespace
}  // namespace vf
