----------------------------- MODULE Gen_Hostile -----------------------------
(* Emits the field-level mutants of Hostile.tla for the (type, value) pairs listed in the file named by VALS
   (a JSON array of [tid, v]); one JSON line [tid, b, label] per mutant. *)
EXTENDS Hostile, Json, IOUtils, TLC

Types == JsonDeserialize(IOEnv.TYPES)
Vals == JsonDeserialize(IOEnv.VALS)

VARIABLE i
Init == i = 0
Next == i < Len(Vals) /\ i' = i + 1
Spec == Init /\ [][Next]_i
Emit == i > 0 =>
  LET tid == Vals[i][1]
      v == Vals[i][2]
      S == Types[tid] IN
  \A m \in FieldMutants(S, v, <<>>) : PrintT(ToJson([tid |-> tid, b |-> m.b, label |-> m.label]))
=============================================================================
