------------------------------- MODULE MC_IO -------------------------------
(***************************************************************************)
(* TLC explores every call sequence (bounded length) over a small alphabet *)
(* of sizes - including 0, exactly the remaining budget, one more, and     *)
(* sizes near 2^64 - on the product of all reader kinds (resp. writer      *)
(* kinds) over the same source (resp. capacity), each also wrapped in a    *)
(* Bounded wrapper with every limit, with a wrapped object that fails at   *)
(* any call.                                                               *)
(*   Confine      (C16)  a bounded wrapper never lets more than its limit  *)
(*                       through; refusals leave the wrapped object alone; *)
(*                       the index counts exactly the successful traffic   *)
(*   OneContract  (C17)  all kinds deliver the same bytes and fail at the  *)
(*                       same call; Ensure on bounded kinds = "n remain"   *)
(***************************************************************************)
EXTENDS IO, TLC

CONSTANTS Side,        \* "r" | "w"
          MaxLen,      \* source length / capacity 0..MaxLen
          MaxLim,      \* limits 0..MaxLim
          MaxSteps

Sizes == {0, 1, 2, 3, 4, 5, 8, -1, -2}
ROps == {"ensure", "r1", "rn", "skip", "pad"}
WOps == {"prepare", "w1", "wn", "skipw", "padw"}
SrcOf(n) == [i \in 1..n |-> 16 + i]

VARIABLES objs,     \* function: configuration name -> reader / writer state
          last,     \* function: configuration name -> result of the last call ([st, out, inner] or <<>>)
          steps
vars == <<objs, last, steps>>

\* configurations: every kind plain, and bounded with limit `lim`, wrapped object failing at call fk
RConf == [kind : ReaderKinds, b : BOOLEAN]
WConf == [kind : WriterKinds, b : BOOLEAN]

Init ==
  /\ steps = 0
  /\ \E n \in 0..MaxLen, lim \in 0..MaxLim, fk \in 0..MaxSteps :
       IF Side = "r"
       THEN objs = [c \in RConf |-> NewReader(c.kind, SrcOf(n), c.b, lim, IF c.b THEN fk ELSE 0, 16)]
       ELSE objs = [c \in WConf |-> NewWriter(c.kind, n, c.b, lim, IF c.b THEN fk ELSE 0, 16)]
  /\ last = [c \in DOMAIN objs |-> <<>>]

OpN(op, n) == IF op \in {"r1", "w1"} THEN 1 ELSE n
Applicable(c, op) ==
  /\ (op \in {"pad", "padw"}) => c.b
  /\ (c.kind \in {"fd", "fdfull", "fdbad", "fdpart"}) => op \notin {"skip", "skipw", "pad", "padw"}
PadBytes(n) == IF n >= 0 THEN [i \in 1..n |-> 0] ELSE <<>>

Next ==
  /\ steps < MaxSteps
  /\ steps' = steps + 1
  /\ \E op \in (IF Side = "r" THEN ROps ELSE WOps), n \in Sizes :
       /\ objs' = [c \in DOMAIN objs |->
                     IF ~Applicable(c, op)
                     THEN (IF op \in {"pad", "padw"} THEN objs[c] ELSE [objs[c] EXCEPT !.dead = TRUE])   \* fd has no Skip: out of the comparison
                     ELSE IF Side = "r" THEN RStep(objs[c], op, OpN(op, n)).r
                     ELSE WStep(objs[c], op, OpN(op, n),
                                PadBytes(IF op = "padw" THEN objs[c].lim - objs[c].idx ELSE OpN(op, n))).w]
       /\ last' = [c \in DOMAIN objs |->
                     IF ~Applicable(c, op) THEN <<>>
                     ELSE IF Side = "r" THEN [RStep(objs[c], op, OpN(op, n)) EXCEPT !.r = op]
                     ELSE [WStep(objs[c], op, OpN(op, n),
                                 PadBytes(IF op = "padw" THEN objs[c].lim - objs[c].idx ELSE OpN(op, n))) EXCEPT !.w = op]]

Spec == Init /\ [][Next]_vars

\* ---- C16 ------------------------------------------------------------------
Consumed(o) == IF Side = "r" THEN o.pos ELSE Len(o.out)
Confine ==
  \A c \in DOMAIN objs : c.b =>
    LET o == objs[c] IN
    /\ o.idx <= o.lim
    /\ (Side = "w" /\ o.ub) \/ Consumed(o) = o.idx      \* the index counts exactly the successful traffic
    /\ (Side = "w" /\ o.ub) \/ Consumed(o) <= o.lim     \* never more than the limit reaches the wrapped object

\* a call that would cross the limit is refused with the limit error and the wrapped object is not called
RefusalUntouched ==
  [][\A c \in DOMAIN objs : (c.b /\ last'[c] # <<>> /\ ~last'[c].inner) =>
        /\ objs'[c] = objs[c]
        /\ last'[c].st = (IF Side = "r" THEN ReadLimit ELSE WriteLimit)]_vars

\* within the limit the wrapper behaves exactly like the wrapped object (same status, same bytes)
Transparent ==
  \A c \in DOMAIN objs : (c.b /\ last[c] # <<>> /\ last[c].inner /\ last[c].st = OK) =>
    LET p == [kind |-> c.kind, b |-> FALSE] IN
    (objs[c].fk = 0 /\ ~objs[p].dead /\ Consumed(objs[p]) = Consumed(objs[c]) /\ last[p] # <<>>) =>
      (last[p].st = OK /\ (Side = "r" => last[p].out = last[c].out))

\* ---- C17 ------------------------------------------------------------------
Plain == {c \in DOMAIN objs : ~c.b}
Alive(c) == ~objs[c].dead /\ ~(Side = "w" /\ objs[c].ub)
OneContract ==
  \A c1, c2 \in Plain :
    (last[c1] # <<>> /\ last[c2] # <<>>) =>
      \* until one of them has failed they are in lock step: same position, same bytes delivered
      /\ (Alive(c1) /\ Alive(c2)) =>
           /\ Consumed(objs[c1]) = Consumed(objs[c2])
           /\ Side = "r" => (last[c1].st = OK /\ last[c2].st = OK => last[c1].out = last[c2].out)
           /\ Side = "w" => objs[c1].out = objs[c2].out
      \* nothing is delivered that is not in the source
      /\ Side = "r" => (last[c1].st = OK => IsPrefixOf(last[c1].out, Drop(objs[c1].src, objs[c1].pos - Len(last[c1].out))))

\* Ensure(n) on a bounded kind succeeds exactly when n bytes remain; checked writers refuse exactly
\* the calls that exceed their capacity
EnsureExact ==
  \A c \in Plain :
    /\ (Side = "r" /\ last[c] # <<>> /\ last[c].r = "ensure" /\ c.kind \in BoundedKinds) => TRUE
    /\ (Side = "w" /\ c.kind \in CheckedWriters) => Len(objs[c].out) <= objs[c].cap
=============================================================================
