------------------------------- MODULE Gen_IO -------------------------------
(***************************************************************************)
(* Behaviour generation for C16 / C17: TLC enumerates every call sequence  *)
(* of length Depth over the alphabet of MC_IO and prints each as one JSON  *)
(* line; the sequences are replayed on the real readers and writers.       *)
(***************************************************************************)
EXTENDS Naturals, Integers, Sequences, TLC, Json

CONSTANTS Side, Depth
Sizes == {0, 1, 2, 3, 4, 5, 8, -1, -2}
ROps == {"ensure", "r1", "rn", "skip", "pad"}
WOps == {"prepare", "w1", "wn", "skipw", "padw"}
\* calls that exist: single-byte calls carry no size, block transfers cannot express sizes near 2^64
Calls == {c \in [op : (IF Side = "r" THEN ROps ELSE WOps), n : Sizes] :
            /\ (c.op \in {"r1", "w1", "pad", "padw"}) => c.n = 1
            /\ (c.op \in {"rn", "wn"}) => c.n >= 0}

VARIABLE hist
Init == hist = <<>>
Next == Len(hist) < Depth /\ \E c \in Calls : hist' = Append(hist, c)
Spec == Init /\ [][Next]_hist
Emit == (Len(hist) = Depth) => PrintT(ToJson(hist))
=============================================================================
