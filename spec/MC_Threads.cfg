SPECIFICATION Spec
CONSTANTS NThreads = 2 Emitting = FALSE
INVARIANT ScheduleIndependent
INVARIANT Emit
PROPERTY Isolation
CHECK_DEADLOCK FALSE
