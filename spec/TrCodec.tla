------------------------------- MODULE TrCodec -------------------------------
(***************************************************************************)
(* Trace specification for the codec properties (C01-C08, C10, C11, C15a). *)
(* The executor's events are consumed one per step.  Each property has its *)
(* own acceptance operator that conjoins only what that property states    *)
(* (DESIGN.md 5.1); PROP selects it.  An event that is not accepted is     *)
(* reported (REJECT line) and the machine resynchronises at the next       *)
(* event, so that one rejection does not hide the rest of the trace.       *)
(***************************************************************************)
EXTENDS Tables, Json, IOUtils, TLC

Log == ndJsonDeserialize(IOEnv.TRACE)
Types == JsonDeserialize(IOEnv.TYPES)
PROP == IOEnv.PROP

VARIABLES l,        \* next event
          lastW,    \* last W event (or <<>>)
          lastR,    \* last R event without prior (fresh destination), or <<>>
          nrej      \* number of rejected events
vars == <<l, lastW, lastR, nrej>>

Has(r, f) == f \in DOMAIN r
T(tid) == Types[tid]
RangeOf(f) == {f[x] : x \in DOMAIN f}

\* ---- value comparison modulo container order / handle projections --------
RECURSIVE HasUMap(_)
HasUMap(S) ==
  CASE S.k = "umap" -> TRUE
    [] S.k \in {"vec", "arr", "carr", "lbuf", "ref", "wrap", "opt"} -> HasUMap(S.e)
    [] S.k \in {"pair", "tup", "struct", "var"} -> \E i \in 1..Len(S.m) : HasUMap(S.m[i])
    [] S.k = "map" -> HasUMap(S.key) \/ HasUMap(S.val)
    [] S.k = "res" -> HasUMap(S.e)
    [] S.k = "table" -> \E i \in 1..Len(S.ents) : S.ents[i].act /\ HasUMap(S.ents[i].e)
    [] OTHER -> FALSE

RECURSIVE Canon(_, _)
Canon(S, v) ==
  CASE S.k = "hnd" -> v.h
    [] S.k \in {"umap", "map"} -> {<<Canon(S.key, v.kv[i][1]), Canon(S.val, v.kv[i][2])>> : i \in 1..Len(v.kv)}
    [] S.k \in {"vec", "arr", "carr"} -> IF IsIntegral(S.e) THEN v.n ELSE [i \in 1..Len(v.n) |-> Canon(S.e, v.n[i])]
    [] S.k = "lbuf" -> IF IsIntegral(S.e) THEN <<v.n, v.c>> ELSE <<[i \in 1..Len(v.n) |-> Canon(S.e, v.n[i])], v.c>>
    [] S.k \in {"ref", "wrap"} -> Canon(S.e, v)
    [] S.k = "opt" -> [i \in 1..Len(v.o) |-> Canon(S.e, v.o[i])]
    [] S.k \in {"pair", "tup", "struct"} -> [i \in 1..Len(S.m) |-> Canon(S.m[i], v.m[i])]
    [] S.k = "res" -> IF v.r = "val" THEN <<"val", Canon(S.e, v.v)>> ELSE <<v.r, v.e>>
    [] S.k = "var" -> IF Has(v, "v") THEN <<v.i, Canon(S.m[NatOf(v.i) + 1], v.v)>> ELSE <<v.i>>
    [] S.k = "table" -> [i \in 1..Len(S.ents) |->
                           IF v.t[i].p THEN <<v.t[i].id, Canon(S.ents[i].e, v.t[i].v)>> ELSE <<v.t[i].id>>]
    [] OTHER -> v

\* a decoded value that contains a map with a repeated key: what the destination container keeps is
\* unspecified (DESIGN.md 5.3), only accept/reject and the consumed length are compared
RECURSIVE DupKeys(_, _)
DupKeys(S, v) ==
  CASE S.k \in {"map", "umap"} ->
         (\E i, j \in 1..Len(v.kv) : i # j /\ v.kv[i][1] = v.kv[j][1])
         \/ (\E i \in 1..Len(v.kv) : DupKeys(S.key, v.kv[i][1]) \/ DupKeys(S.val, v.kv[i][2]))
    [] S.k \in {"vec", "arr", "carr", "lbuf"} -> \E i \in 1..Len(v.n) : DupKeys(S.e, v.n[i])
    [] S.k \in {"ref", "wrap"} -> DupKeys(S.e, v)
    [] S.k = "opt" -> Len(v.o) = 1 /\ DupKeys(S.e, v.o[1])
    [] S.k \in {"pair", "tup", "struct"} -> \E i \in 1..Len(S.m) : DupKeys(S.m[i], v.m[i])
    [] S.k = "res" -> v.r = "val" /\ DupKeys(S.e, v.v)
    [] S.k = "var" -> Has(v, "v") /\ DupKeys(S.m[NatOf(v.i) + 1], v.v)
    [] S.k = "table" -> \E i \in 1..Len(S.ents) : v.t[i].p /\ DupKeys(S.ents[i].e, v.t[i].v)
    [] OTHER -> FALSE
HasMap(S) == HasUMap(S) \/ (S.k = "map") \/ (S.k \notin {"bool", "char", "int", "enum", "flt", "str", "hnd", "emptyvar"})

\* maps (ordered or not) are compared as sets of pairs: the wire order of a map's entries is the
\* writer's iteration order and a reader is free to store them in its own order
SameVal(S, a, b) == IF S.k \in {"bool", "char", "int", "enum", "flt", "str"} THEN a = b ELSE Canon(S, a) = Canon(S, b)

\* ---- reader kinds --------------------------------------------------------
\* status a reader kind returns when its own data runs out (docs: Basic Reader Interface)
SrcCode(rk) == IF rk.k \in {"sstream", "fstream"} THEN 14 ELSE 12
MapErr(errs, rk) == {IF x = E_Src THEN SrcCode(rk) ELSE x : x \in errs}
HT(e) == IF Has(e, "ht") THEN [r \in {p[1] : p \in RangeOf(e.ht)} |-> (CHOOSE p \in RangeOf(e.ht) : p[1] = r)[2]]
         ELSE <<>>

ItemRefs(it) == IF Has(it, "refs") THEN it.refs ELSE <<>>
RECURSIVE Offs(_, _)
Offs(items, i) == IF i = 1 THEN 0 ELSE Offs(items, i - 1) + items[i - 1].n

AbnormalKinds == {"UB", "Crash", "Exc", "Timeout", "BadCmd", "Race"}

\* =========================================================================
(* Every acceptance operator returns the set of *tags* of the conditions   *)
(* of its property that the event violates; the event is accepted iff the  *)
(* set is empty.  Tags name the failing condition (they become part of the *)
(* structural key of a finding).                                           *)
Tag(cond, tag) == IF cond THEN {} ELSE {tag}
UnionOver(n, F(_)) == UNION {F(i) : i \in 1..n}

\* C03: the bytes are exactly those of the documented format
C03W(e) ==
  UnionOver(Len(e.items), LAMBDA i :
    LET it == e.items[i]
        S == T(it.tid)
        x == EncR(S, it.v, RealCtx(ItemRefs(it)), 1)
        off == Offs(e.items, i) IN
    IF x.err # 0 THEN Tag(it.st # 0, "unencodable-accepted")   \* which code is not part of C03
    ELSE Tag(it.st = 0, "status")
         \cup (IF it.st = 0 THEN Tag(off + it.n <= Len(e.out) /\ MatchBytes(x.b, SubSeq(e.out, off + 1, off + it.n)), "bytes")
               ELSE {}))

\* C01: what was written is read back, consuming exactly the bytes written
C01W(e) ==
  UnionOver(Len(e.items), LAMBDA i :
    LET it == e.items[i]
        enc == EncR(T(it.tid), it.v, RealCtx(ItemRefs(it)), 1).err = 0 IN
    \* encodable values must be written, non-encodable ones (size member above capacity) refused
    IF enc THEN Tag(it.st = 0, "write-refused") ELSE Tag(it.st # 0, "unencodable-accepted"))
C01R(e) ==
  IF lastW = <<>> \/ e.src # lastW.out \/ Len(e.items) # Len(lastW.items) THEN {"binding"}
  ELSE UnionOver(Len(e.items), LAMBDA i :
       LET it == e.items[i]
           w == lastW.items[i] IN
       IF w.st # 0 THEN {}
       ELSE Tag(it.tid = w.tid, "binding")
            \cup Tag(it.st = 0, "status")
            \cup (IF it.st = 0 THEN Tag(Has(it, "v") /\ SameVal(T(it.tid), it.v, w.v), "value") \cup Tag(it.used = w.n, "consumed")
                  ELSE {}))

\* C04: accept exactly the documented language, value, consumed length, category
RECURSIVE C04Items(_, _, _, _)
C04Items(e, c, i, pos) ==
  IF i > Len(e.items) THEN {}
  ELSE LET it == e.items[i]
           S == T(it.tid)
           d == Dec(S, c, pos, e.rk.lim) IN
       IF d.ok
       THEN Tag(it.st = 0, "rejected-valid")
            \cup (IF it.st = 0
                  THEN Tag(it.used = d.pos - pos, "consumed")
                       \cup Tag(Has(it, "v") /\ ((HasMap(S) /\ DupKeys(S, d.v)) \/ SameVal(S, it.v, d.v)), "value")
                       \cup C04Items(e, c, i + 1, d.pos)
                  ELSE {})
       ELSE Tag(it.st # 0, "accepted-invalid")
            \cup (IF it.st # 0 /\ Has(e, "tag") /\ Has(e.tag, "cat") /\ e.tag.cat
                  THEN Tag(it.st \in MapErr(d.errs, e.rk), "category") ELSE {})
C04R(e) ==
  LET f == C04Items(e, [bs |-> e.src, ht |-> HT(e), viw |-> VarIndexWidth], 1, 0) IN
  IF f = {} THEN {}
  \* explained entirely by the documented-INT64 / implemented-INT32 variant index (D7)?
  ELSE IF C04Items(e, [bs |-> e.src, ht |-> HT(e), viw |-> 4], 1, 0) = {} THEN {"doc-mismatch:variant-index-int64"}
  ELSE f

\* C05: no strict prefix of a valid encoding is reported as decoded
C05RC(e) ==
  UnionOver(Len(e.runs), LAMBDA i :
    UnionOver(Len(e.runs[i].cuts), LAMBDA j :
      LET c == e.runs[i].cuts[j]
          \* (a run flagged "populated" read every cut into a destination that already held the complete value)
          who == e.runs[i].rk.k \o (IF Has(e.runs[i], "populated") THEN "/populated-destination" ELSE "") IN
      IF Has(c, "unsupported") THEN {}
      ELSE Tag(c.st # 0, "accepted-prefix:" \o who) \cup Tag(~Has(c, "oob"), "oob:" \o who)))

\* C06: the size estimate is an upper bound (exact without handles); buffer writers respect capacity
C06WC(e) ==
  LET S == T(e.tid)
      size == NatOf(e.size)
      ref == e.ref IN
  IF ref.st # 0 THEN Tag(EncR(S, ref.v, RealCtx(<<>>), 1).err # 0, "write-refused")
  ELSE
  Tag(size # Huge /\ size >= Len(ref.out), "underestimate")
  \cup Tag(HasHandle(S) \/ size = Len(ref.out), "inexact")
  \cup Tag(ref.guard /\ ~Has(ref, "oob"), "overrun")
  \* declared entry sizes frame exactly what follows (re-parsed with a handle table for the default references 0..255;
  \* runs with other references only test the size estimate)
  \cup (IF Has(e, "customrefs") THEN {}
        ELSE LET d == Dec(S, [bs |-> ref.out, ht |-> [r \in {WordOfNat(k, 8) : k \in 0..255} |-> r], viw |-> VarIndexWidth], 0, Inf) IN
             Tag(d.ok /\ d.pos = Len(ref.out), "entry-frame"))
  \cup (IF Has(e, "runs")
        THEN UnionOver(Len(e.runs), LAMBDA i :
               LET r == e.runs[i] IN
               Tag(r.guard /\ ~Has(r, "oob") /\ Len(r.out) <= r.cap, "overrun:" \o r.wk.k)
               \cup (IF r.cap >= size THEN Tag(r.st = 0 /\ r.out = ref.out, "fits-but-failed:" \o r.wk.k)
                     ELSE Tag(r.st = 13, "small-not-refused:" \o r.wk.k)))
        ELSE {})

\* C10: a failing primitive stops the operation, its code is returned verbatim
C10Runs(e, isWrite) ==
  UnionOver(Len(e.runs), LAMBDA i :
    LET r == e.runs[i] IN
    Tag(r.st = r.code, "code:" \o r.op)
    \cup Tag(r.ncalls = r.k /\ ~r.caf, "call-after-failure:" \o r.op)
    \cup (IF isWrite THEN Tag(IsPrefixOf(r.out, e.out) /\ (r.op = "prepare" => r.out = <<>>), "bytes-after-failure") ELSE {}))

\* C11: the result does not depend on the destination's prior contents
C11R(e) ==
  IF lastR = <<>> \/ lastR.src # e.src \/ Len(lastR.items) # Len(e.items) THEN {"binding"}
  ELSE Tag(e.ledger.born = e.ledger.died, "ledger")
       \cup UnionOver(Len(e.items), LAMBDA i :
         LET it == e.items[i]
             f == lastR.items[i] IN
         Tag(it.tid = f.tid, "binding")
         \cup Tag(it.st = f.st, "status")
         \cup Tag(it.used = f.used, "consumed")
         \cup (IF it.st = 0 /\ f.st = 0 THEN Tag(SameVal(T(it.tid), it.v, f.v), "value") ELSE {}))

\* C02: hostile input on bounded readers: in bounds, bounded allocation, reusable destination
AllocBound(n) == 4096 + 256 * n
\* "valid to inspect": whatever a read leaves behind is a value of the destination's type - in particular the size member of
\* a bounded logical buffer stays within the capacity of its array (walking data[0 .. count) must stay inside the object)
RECURSIVE Inspectable(_, _)
Inspectable(S, v) ==
  CASE S.k = "lbuf" -> LET cnt == NatOf(IF S.ss THEN SignExt(v.c, 8) ELSE ZeroExt(v.c, 8)) IN
                       (S.unb \/ (cnt # Huge /\ cnt <= S.n)) /\ \A j \in 1..Len(v.n) : Inspectable(S.e, v.n[j])
    [] S.k \in {"struct", "tup", "pair"} -> \A j \in 1..Len(S.m) : Inspectable(S.m[j], v.m[j])
    [] S.k \in {"vec", "arr", "carr"} -> \A j \in 1..Len(v.n) : Inspectable(S.e, v.n[j])
    [] S.k = "opt" -> \A j \in 1..Len(v.o) : Inspectable(S.e, v.o[j])
    [] S.k \in {"wrap", "ref"} -> Inspectable(S.e, v)
    [] S.k = "table" -> \A j \in 1..Len(S.ents) : (S.ents[j].act /\ v.t[j].p) => Inspectable(S.ents[j].e, v.t[j].v)
    [] OTHER -> TRUE
C02R(e) ==
  Tag(e.ledger.born = e.ledger.died, "ledger")
  \cup UnionOver(Len(e.items), LAMBDA i :
       LET it == e.items[i] IN
       Tag(~Has(it, "oob"), "oob")
       \cup Tag(~Has(it, "v") \/ Inspectable(T(it.tid), it.v), "destination-not-inspectable")
       \* the input length of a BoundedReader over a stream is its byte limit (its Ensure can check nothing else)
       \cup Tag(~Has(it, "alloc") \/ it.alloc <= AllocBound(IF e.rk.b /\ e.rk.k \in {"sstream", "fstream", "fd"}
                                                                THEN Max(Len(e.src), e.rk.lim) ELSE Len(e.src)), "alloc")
       \cup (IF Has(it, "st2")
             \* "still valid to ... read into again": the second read of a valid encoding must succeed and
             \* consume it (what it yields is C11's statement, not C02's)
             THEN Tag(it.st2 = 0 /\ lastW # <<>> /\ it.used2 = Len(lastW.out), "reuse")
             ELSE {}))

\* C15 (a): every handle is pushed out of band exactly once, in encounter order, and exactly the
\* reference the writer returned is encoded after the type tag
C15W(e) ==
  UnionOver(Len(e.items), LAMBDA i :
    LET it == e.items[i]
        S == T(it.tid)
        x == EncR(S, it.v, RealCtx(ItemRefs(it)), 1)
        off == Offs(e.items, i)
        pushed == IF Has(it, "pushed") THEN it.pushed ELSE <<>> IN
    Tag(it.st = 0, "status")
    \cup Tag(pushed = x.push, "push-order")
    \cup Tag(Len(ItemRefs(it)) = Len(x.push), "push-count")
    \cup (IF it.st = 0 THEN Tag(off + it.n <= Len(e.out) /\ MatchBytes(x.b, SubSeq(e.out, off + 1, off + it.n)), "reference-encoding")
          ELSE {}))

\* C07: data written with one definition of a table is read by another definition as Project prescribes,
\* and the reader ends exactly after the table (a sentinel value follows on the stream)
C07R(e) ==
  IF lastW = <<>> \/ e.src # lastW.out \/ Len(e.items) # Len(lastW.items) THEN {"binding"}
  ELSE UnionOver(Len(e.items), LAMBDA i :
       LET it == e.items[i]
           w == lastW.items[i]
           Sw == T(w.tid)
           Sr == T(it.tid) IN
       Tag(w.st = 0, "write-refused")
       \cup Tag(it.st = 0, "status")
       \cup (IF it.st = 0 /\ w.st = 0
             THEN Tag(Has(it, "v") /\ SameVal(Sr, it.v, Conv(Sw, Sr, w.v)), "projection") \cup Tag(it.used = w.n, "position")
             ELSE {}))

\* The three ways a Serializer / Deserializer can hold its writer / reader (by value, by pointer, by unique_ptr;
\* base/serializer.h specializes each) behave alike: documented bytes, exact size, value back, all bytes consumed
FormName(f) == CASE f = 0 -> "by-value" [] f = 1 -> "by-pointer" [] f = 2 -> "by-unique_ptr"
                 [] f = 3 -> "constexpr-writer/pedantic-reader" [] f = 4 -> "pedantic-writer/buffer-reader"
                 [] f = 5 -> "stream-writer/stream-reader" [] OTHER -> "fd-writer/fd-reader-move-assigned"
FormsFails(e) ==
  UnionOver(Len(e.steps), LAMBDA i :
    LET s == e.steps[i]
        S == T(s.tid) IN
    Tag(s.st = 0 /\ s.bytes = Enc(S, s.v), "serializer-" \o FormName(s.form) \o ":bytes")
    \cup Tag(s.size = Len(s.bytes), "serializer-" \o FormName(s.form) \o ":size")
    \cup Tag(s.st2 = 0 /\ SameVal(S, s.v2, s.v) /\ s.used = Len(s.bytes), "deserializer-" \o FormName(s.form) \o ":roundtrip"))

\* The same encodings cut at every strict prefix and read by the library's reader classes directly (typed block
\* transfers reach them unchanged): a strict prefix is never reported as decoded (C05).  Written through the checked
\* writer classes at every capacity below the encoding's length: the write must be refused (C06).
CutReader(j) == CASE j = 1 -> "buffer" [] j = 2 -> "pedantic" [] j = 3 -> "stream" [] j = 4 -> "buffer-by-pointer" [] OTHER -> "buffer-by-unique_ptr"
CapWriter(j) == CASE j = 1 -> "pedantic" [] j = 2 -> "constexpr" [] j = 3 -> "buffer-by-value" [] j = 4 -> "buffer-by-pointer"
                  [] OTHER -> "buffer-by-unique_ptr"
FormsCutFails(e) ==
  UnionOver(Len(e.steps), LAMBDA i :
    LET s == e.steps[i] IN
    IF ~Has(s, "cuts") THEN {}
    ELSE UnionOver(Len(s.cuts), LAMBDA k : UnionOver(Len(s.cuts[k]), LAMBDA j : Tag(s.cuts[k][j] # 0, "prefix-accepted:" \o CutReader(j)))))
\* (the unchecked BufferWriter relies on Serializer::Write calling Prepare(GetSize) first; 1000 + status: bytes behind
\* the capacity were overwritten)
FormsCapFails(e) ==
  UnionOver(Len(e.steps), LAMBDA i :
    LET s == e.steps[i] IN
    IF ~Has(s, "caps") THEN {}
    ELSE UnionOver(Len(s.caps), LAMBDA k : UnionOver(Len(s.caps[k]), LAMBDA j :
           Tag(s.caps[k][j] # 0 /\ s.caps[k][j] # 1000, "written-beyond-capacity:" \o CapWriter(j))
           \cup Tag(s.caps[k][j] < 1000, "overrun:" \o CapWriter(j)))))

\* ---- dispatch ---------------------------------------------------------------
HasPrior(e) == \E i \in 1..Len(e.items) : Has(e.items[i], "prior")

Fails(e) ==
  IF e.e \in AbnormalKinds THEN {"abnormal"}
  ELSE IF e.e \in {"Reset", "Facts", "Echo", "S"} THEN {}
  ELSE IF e.e = "FORMS" THEN (IF PROP \in {"C01", "C03", "C06"} THEN FormsFails(e) \cup (IF PROP = "C06" THEN FormsCapFails(e) ELSE {})
                              ELSE IF PROP = "C05" THEN FormsCutFails(e) ELSE {})
  ELSE CASE PROP = "C01" -> IF e.e = "W" THEN C01W(e) ELSE IF e.e = "R" THEN C01R(e) ELSE {}
         [] PROP = "C02" -> IF e.e = "R" THEN C02R(e) ELSE {}
         [] PROP = "C03" -> IF e.e = "W" THEN C03W(e) ELSE {}
         [] PROP = "C04" -> IF e.e = "R" THEN C04R(e) ELSE {}
         [] PROP = "C05" -> IF e.e = "RC" THEN C05RC(e) ELSE {}
         [] PROP = "C06" -> IF e.e = "WC" THEN C06WC(e) ELSE {}
         [] PROP = "C07" -> IF e.e = "R" THEN C07R(e) ELSE {}
         [] PROP = "C08" -> IF e.e = "R" THEN C04R(e) ELSE {}
         [] PROP = "C10" -> IF e.e = "RF" THEN C10Runs(e, FALSE) ELSE IF e.e = "WF" THEN C10Runs(e, TRUE) ELSE {}
         [] PROP = "C11" -> IF e.e = "R" /\ HasPrior(e) THEN C11R(e) ELSE {}
         \* reads: tag check, resolution and verbatim resolution errors as Dec prescribes (the variant-index
         \* documentation mismatch is C04's finding, not a statement of C15)
         [] PROP = "C15" -> IF e.e = "W" THEN C15W(e)
                            ELSE IF e.e = "R" THEN (LET f == C04R(e) IN IF f = {"doc-mismatch:variant-index-int64"} THEN {} ELSE f)
                            ELSE {}

Init == l = 1 /\ lastW = <<>> /\ lastR = <<>> /\ nrej = 0

Step ==
  /\ l <= Len(Log)
  /\ LET e == Log[l]
         why == Fails(e)
         ok == why = {} IN
     /\ (IF ok THEN TRUE ELSE PrintT("REJECT " \o ToJson([l |-> l, idx |-> e.idx, e |-> e.e, why |-> why])))
     /\ nrej' = IF ok THEN nrej ELSE nrej + 1
     /\ lastW' = IF e.e = "W" THEN e ELSE IF e.e = "Reset" THEN <<>> ELSE lastW
     /\ lastR' = IF e.e = "R" /\ ~HasPrior(e) THEN e ELSE IF e.e = "Reset" THEN <<>> ELSE lastR
  /\ l' = l + 1

Done == l = Len(Log) + 1 /\ PrintT("DONE " \o ToJson([n |-> Len(Log), nrej |-> nrej])) /\ UNCHANGED vars

Next == Step \/ Done
Spec == Init /\ [][Next]_vars
=============================================================================
