------------------------------- MODULE IOFold -------------------------------
(***************************************************************************)
(* Acceptance of one recorded sequence of primitive calls on a library     *)
(* reader or writer (an IO event) against the automata of IO.tla: every    *)
(* call must be the corresponding step.  Shared by TrIO.tla (C16, C17) and *)
(* TrThreads.tla (the same sequences run inside threads, C19).             *)
(***************************************************************************)
EXTENDS IO

Has(r, f) == f \in DOMAIN r
Tag(cond, tag) == IF cond THEN {} ELSE {tag}

\* the call the wrapped object must have received for user call (op, n) at budget `budget`
InnerCall(op, n, budget) == IF op \in {"pad", "padw"} THEN <<IF op = "pad" THEN "skip" ELSE "skipw", budget>> ELSE <<op, n>>

RECURSIVE RFold(_, _, _)
RFold(e, r, i) ==
  IF i > Len(e.ops) THEN {}
  ELSE LET o == e.ops[i]
           x == RStep(r, o.op, o.n)
           budget == r.lim - r.idx
           bk == IF e.bounded THEN "bounded:" ELSE "" IN
    Tag(o.st = x.st, "status:" \o bk \o o.op)
    \cup (IF o.st = x.st /\ x.st = OK /\ o.op \in {"r1", "rn"} THEN Tag(Has(o, "out") /\ o.out = x.out, "bytes:" \o bk \o o.op) ELSE {})
    \cup (IF e.bounded /\ Has(o, "idx") THEN Tag(o.idx = x.r.idx, "index:" \o o.op) ELSE {})
    \cup (IF Has(o, "ipos") THEN Tag(o.ipos = x.r.pos, "wrapped-position:" \o o.op) ELSE {})
    \cup (IF Has(o, "acc") /\ o.st = x.st THEN Tag(AccessorsAgree(o.acc, RAccessors(x.r)), "accessors:" \o bk \o o.op) ELSE {})
    \cup (IF Has(o, "icalls") /\ e.bounded
          THEN IF x.inner
               THEN Tag(Len(o.icalls) = 1 /\ <<o.icalls[1].op, o.icalls[1].n>> = InnerCall(o.op, o.n, budget), "wrapped-calls:" \o o.op)
               ELSE Tag(o.icalls = <<>>, "wrapped-touched-on-refusal:" \o o.op)
          ELSE {})
    \cup (IF o.st # x.st THEN {}                                         \* resynchronising is pointless
          ELSE IF x.r.dead /\ (e.kind \in {"sstream", "fstream", "fd", "fdbad"}) THEN {}   \* after the first failure: unspecified
          ELSE RFold(e, x.r, i + 1))

PadSeq(n, pad) == IF n >= 0 THEN [j \in 1..n |-> pad] ELSE <<>>

RECURSIVE WFold(_, _, _)
WFold(e, w, i) ==
  IF i > Len(e.ops)
  THEN (IF w.ub THEN {} ELSE Tag(e.out = w.out, "output") \cup Tag(e.guard, "overrun"))
  ELSE LET o == e.ops[i]
           budget == w.lim - w.idx
           bs == IF o.op \in {"w1", "wn"} THEN o.bs
                 ELSE IF o.op = "skipw" THEN PadSeq(o.n, o.pad)
                 ELSE IF o.op = "padw" THEN PadSeq(budget, o.pad) ELSE <<>>
           x == WStep(w, o.op, o.n, bs)
           bk == IF e.bounded THEN "bounded:" ELSE "" IN
    IF Has(o, "guarded") \/ x.w.ub THEN {}        \* the caller broke BufferWriter's Prepare obligation: nothing to check
    ELSE
    Tag(o.st = x.st, "status:" \o bk \o o.op)
    \cup (IF e.bounded /\ Has(o, "size") THEN Tag(o.size = x.w.idx, "index:" \o o.op) ELSE {})
    \cup (IF ~e.bounded /\ Has(o, "size") /\ o.size >= 0 THEN Tag(o.size = Len(x.w.out), "size:" \o o.op) ELSE {})
    \cup (IF Has(o, "ipos") THEN Tag(o.ipos = Len(x.w.out), "wrapped-position:" \o o.op) ELSE {})
    \cup (IF Has(o, "acc") /\ o.st = x.st THEN Tag(AccessorsAgree(o.acc, WAccessors(x.w)), "accessors:" \o bk \o o.op) ELSE {})
    \cup (IF Has(o, "icalls") /\ e.bounded
          THEN IF x.inner
               THEN Tag(Len(o.icalls) = 1 /\ <<o.icalls[1].op, o.icalls[1].n>> = InnerCall(o.op, o.n, budget), "wrapped-calls:" \o o.op)
               ELSE Tag(o.icalls = <<>>, "wrapped-touched-on-refusal:" \o o.op)
          ELSE {})
    \cup (IF o.st # x.st THEN {}
          \* after the first failure of the sink itself: only what was accepted before stays (a failing stream or
          \* descriptor may have taken part of the last transfer; its state is unspecified from then on)
          ELSE IF x.w.dead /\ (~e.bounded \/ e.kind \in {"lstream", "fdfull", "fdpart"}) THEN Tag(IsPrefixOf(w.out, e.out), "output")
          ELSE WFold(e, x.w, i + 1))

\* bytes produced by compile-time serialization equal those produced at run time (by the constexpr writer and
\* by the pedantic writer)
CtFails(e) ==
  UNION {LET c == e.cases[i] IN
         Tag(c.st_c = 0 /\ c.st_p = 0, "compile-time:status")
         \cup Tag(c.ct = c.rt_c, "compile-time-vs-run-time")
         \cup Tag(c.rt_c = c.rt_p, "constexpr-vs-pedantic-writer") : i \in 1..Len(e.cases)}

Fails(e) ==
  IF e.e \in {"UB", "Crash", "Exc", "Timeout", "BadCmd", "Race"} THEN {"abnormal"}
  ELSE IF e.e = "CT" THEN CtFails(e)
  ELSE IF e.e # "IO" THEN {}
  ELSE IF e.side = "r"
       THEN RFold(e, NewReader(e.kind, e.src, e.bounded, e.limit, e.fk, e.fe), 1)
       ELSE WFold(e, NewWriter(e.kind, e.cap, e.bounded, e.limit, e.fk, e.fe), 1)
=============================================================================
