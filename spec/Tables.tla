------------------------------- MODULE Tables -------------------------------
(***************************************************************************)
(* Table definitions evolving through a history (C07).                     *)
(*                                                                         *)
(* A definition is a sequence of entries [id, act, e]: id (word), active   *)
(* or deleted, entry type.  The rules of include/nop/table.h ("Use the     *)
(* following rules to maximize compatibility"):  ids are never reused, an  *)
(* entry is removed or marked deleted rather than renumbered, the hash     *)
(* never changes; entries may be added, removed, marked deleted, reordered *)
(* and an entry's type replaced by a fungible one.                         *)
(*                                                                         *)
(* The universe of logical entries is fixed (EntryPool): each id denotes   *)
(* one logical entry for the whole life of the table, with one or two      *)
(* fungible spellings of its type.  Project(W, R, v) is what a reader with *)
(* definition R must see of value v written with definition W.             *)
(***************************************************************************)
EXTENDS Wire, Schema

WId(n) == WordOfNat(n, 8)
U8 == TInt(1, FALSE)   U16 == TInt(2, FALSE)
\* two versions of an inner table (nested compatibility)
InnerA == TTable(WId(9), <<TEntry(WId(0), TRUE, U8), TEntry(WId(1), TRUE, TStr(1))>>)
InnerB == TTable(WId(9), <<TEntry(WId(2), TRUE, U16), TEntry(WId(1), TRUE, TStr(1)), TEntry(WId(0), FALSE, U8)>>)
\* a third version whose additional entry comes *last* on the wire (what the other versions skip then ends the enclosing
\* entry exactly)
InnerC == TTable(WId(9), <<TEntry(WId(1), TRUE, TStr(1)), TEntry(WId(0), TRUE, U8), TEntry(WId(3), TRUE, U16)>>)

\* logical entries: id and the fungible spellings of the type
EntryPool == <<
  [id |-> WId(0),   alts |-> <<U8>>],
  [id |-> WId(1),   alts |-> <<TStr(1)>>],
  \* (ids are 64-bit: two of them lie above 2^32 and 2^63, with the same low byte as a small id would have)
  [id |-> <<5, 0, 0, 0, 1, 0, 0, 0>>,   alts |-> <<TVec(U16), TArr(U16, 2)>>],     \* 2^32 + 5: vector <-> array of the same element
  [id |-> <<1, 0, 0, 0, 0, 0, 0, 128>>, alts |-> <<InnerA, InnerB, InnerC>>]                \* 2^63 + 1: nested table, itself in three versions
>>
NE == Len(EntryPool)
TableHashW == <<52, 18, 0, 0, 0, 0, 0, 0>>     \* 0x1234, never changes

\* a definition in compact form: sequence of [k |-> pool index, act |-> BOOLEAN, alt |-> 1 | 2]
DefSchema(d) == TTable(TableHashW, [i \in 1..Len(d) |-> TEntry(EntryPool[d[i].k].id, d[i].act, EntryPool[d[i].k].alts[d[i].alt])])

\* ---- evolution steps ---------------------------------------------------------
Present(d) == {d[i].k : i \in 1..Len(d)}
DropAt(d, i) == SubSeq(d, 1, i - 1) \o SubSeq(d, i + 1, Len(d))
SwapAt(d, i) == [d EXCEPT ![i] = d[i + 1], ![i + 1] = d[i]]
Steps(d, retired) ==
  \* add an entry whose id was never used before (anywhere in the sequence)
  {[d |-> Append(d, [k |-> k, act |-> TRUE, alt |-> a]), retired |-> retired] :
      k \in (1..NE) \ (Present(d) \cup retired), a \in {1}}
  \cup {[d |-> <<[k |-> k, act |-> TRUE, alt |-> 1]>> \o d, retired |-> retired] : k \in (1..NE) \ (Present(d) \cup retired)}
  \* remove an entry entirely: its id is retired
  \cup {[d |-> DropAt(d, i), retired |-> retired \cup {d[i].k}] : i \in 1..Len(d)}
  \* mark an entry deleted (documents the deprecation, keeps the id reserved)
  \cup {[d |-> [d EXCEPT ![i].act = FALSE], retired |-> retired] : i \in {j \in 1..Len(d) : d[j].act}}
  \* reorder
  \cup {[d |-> SwapAt(d, i), retired |-> retired] : i \in 1..(Len(d) - 1)}
  \* replace the type by a fungible one
  \cup UNION {{[d |-> [d EXCEPT ![i].alt = a], retired |-> retired] : a \in (1..Len(EntryPool[d[i].k].alts)) \ {d[i].alt}} :
               i \in {j \in 1..Len(d) : d[j].act}}

\* ---- projection ----------------------------------------------------------------
RECURSIVE Project(_, _, _)
\* the value a reader of schema Sr sees for a value v of writer schema Sw (same logical type);
\* tables may sit inside structures, tuples and vectors
RECURSIVE Conv(_, _, _)
Conv(Sw, Sr, v) ==
  IF Sw.k = "table" /\ Sr.k = "table" THEN Project(Sw, Sr, v)
  ELSE IF Sw.k \in {"struct", "tup", "pair"} /\ Sr.k = Sw.k /\ Len(Sw.m) = Len(Sr.m)
       THEN [m |-> [i \in 1..Len(Sw.m) |-> Conv(Sw.m[i], Sr.m[i], v.m[i])]]
  ELSE IF Sw.k = "vec" /\ Sr.k = "vec" /\ Sw.e.k = "table"
       THEN [n |-> [i \in 1..Len(v.n) |-> Conv(Sw.e, Sr.e, v.n[i])]]
  ELSE v
WIndex(Sw, id) == IF \E i \in 1..Len(Sw.ents) : Sw.ents[i].id = id
                  THEN CHOOSE i \in 1..Len(Sw.ents) : Sw.ents[i].id = id ELSE 0
Project(Sw, Sr, v) ==
  [t |-> [j \in 1..Len(Sr.ents) |->
     LET re == Sr.ents[j]
         i == WIndex(Sw, re.id) IN
     \* active in both and non-empty at the writer: the value is carried across; otherwise the entry reads as empty
     IF re.act /\ i # 0 /\ Sw.ents[i].act /\ v.t[i].p
     THEN [id |-> re.id, p |-> TRUE, v |-> Conv(Sw.ents[i].e, re.e, v.t[i].v)]
     ELSE [id |-> re.id, p |-> FALSE]]]

\* ---- representative values ---------------------------------------------------------
\* one representative value per type (a vector entry holds exactly as many elements as its array spelling)
RECURSIVE RepVal(_)
RepVal(S) ==
  CASE S.k \in {"int", "enum"} -> [i \in 1..S.w |-> IF i = 1 THEN 200 ELSE 0]
    [] S.k = "char" -> <<65>>
    [] S.k = "bool" -> <<1>>
    [] S.k = "str" -> [cw |-> S.cw, b |-> [i \in 1..(2 * S.cw) |-> 70 + i]]
    [] S.k \in {"vec", "arr"} -> [n |-> [i \in 1..(IF S.k = "arr" THEN S.n ELSE 2) |-> RepVal(S.e)]]
    [] S.k \in {"struct", "tup", "pair"} -> [m |-> [i \in 1..Len(S.m) |-> RepVal(S.m[i])]]
    [] S.k = "opt" -> [o |-> <<RepVal(S.e)>>]
    [] S.k = "table" -> [t |-> [i \in 1..Len(S.ents) |->
                           IF S.ents[i].act THEN [id |-> S.ents[i].id, p |-> TRUE, v |-> RepVal(S.ents[i].e)]
                           ELSE [id |-> S.ents[i].id, p |-> FALSE]]]
\* all assignments of empty / non-empty to the active entries
TableVals(S) ==
  LET full == RepVal(S)
      act == {i \in 1..Len(S.ents) : S.ents[i].act} IN
  {[t |-> [i \in 1..Len(S.ents) |-> IF i \in keep THEN full.t[i] ELSE [id |-> S.ents[i].id, p |-> FALSE]]] : keep \in SUBSET act}
=============================================================================
