------------------------------- MODULE Threads -------------------------------
(***************************************************************************)
(* C19: ThreadLocal<T, Slot> is private to each thread and to each         *)
(* (T, Slot) pair; the first initialisation in a thread wins until Clear.  *)
(*                                                                         *)
(* tl[t][s] is the value thread t sees in slot s, or None.  Operations a   *)
(* thread performs through a ThreadLocal handle it constructs itself:      *)
(*   init(v)   construct a handle with initial value v: takes effect only  *)
(*             if the thread's slot is empty; observes the slot's value    *)
(*   initialize(v)  Initialize(v) through a handle constructed without     *)
(*             arguments: the same "first initialisation wins" rule         *)
(*   set(v)    construct a handle (initialising with v if empty) and       *)
(*             assign v through Get(); observes v                          *)
(*   clear     empty the thread's slot                                     *)
(* A step of thread t reads and writes tl[t] only.                         *)
(***************************************************************************)
EXTENDS Naturals, Integers, Sequences, TLC

NoneV == -1
TLStep(tl, t, op) ==
  LET cur == tl[t][op.slot] IN
  CASE op.op \in {"init", "initialize"} -> LET v == IF cur = NoneV THEN op.val ELSE cur IN [tl |-> [tl EXCEPT ![t][op.slot] = v], obs |-> v]
    [] op.op = "set" -> [tl |-> [tl EXCEPT ![t][op.slot] = op.val], obs |-> op.val]
    [] op.op = "clear" -> [tl |-> [tl EXCEPT ![t][op.slot] = NoneV], obs |-> NoneV]
    [] OTHER -> [tl |-> tl, obs |-> NoneV]       \* codec operations on the thread's own objects do not touch tl
=============================================================================
