------------------------------- MODULE Bytes -------------------------------
(***************************************************************************)
(* Bytes and words.  A word of width w is a sequence of w bytes, least     *)
(* significant first.  TLC integers are 32 bit, so every quantity that can *)
(* be wide (integers, sizes, hashes, ids) is a word; NatOf maps a word to  *)
(* a natural only when it is below 2^24 and to Huge otherwise, which is    *)
(* enough to decide "length <= bytes remaining" for every real buffer.     *)
(***************************************************************************)
EXTENDS Naturals, Integers, Sequences, FiniteSets

Byte == 0..255
Huge == -1            \* NatOf of a word >= 2^24
Inf  == 1073741823    \* "no limit" (2^30 - 1)

Min(a, b) == IF a <= b THEN a ELSE b
Max(a, b) == IF a >= b THEN a ELSE b

AllZeroFrom(bs, i) == \A j \in i..Len(bs) : bs[j] = 0
AllFFFrom(bs, i)   == \A j \in i..Len(bs) : bs[j] = 255
IsNeg(bs) == bs[Len(bs)] >= 128

\* the word, read as unsigned, is representable in n bytes
UFits(bs, n) == n >= Len(bs) \/ AllZeroFrom(bs, n + 1)
\* the word, read as two's complement, is representable in n bytes
SFits(bs, n) == n >= Len(bs) \/ (IF bs[n] >= 128 THEN AllFFFrom(bs, n + 1) ELSE AllZeroFrom(bs, n + 1))

Take(bs, n) == SubSeq(bs, 1, n)
Drop(bs, n) == SubSeq(bs, n + 1, Len(bs))
ZeroExt(bs, w) == IF Len(bs) >= w THEN Take(bs, w) ELSE bs \o [i \in 1..(w - Len(bs)) |-> 0]
SignExt(bs, w) == IF Len(bs) >= w THEN Take(bs, w)
                  ELSE bs \o [i \in 1..(w - Len(bs)) |-> IF bs[Len(bs)] >= 128 THEN 255 ELSE 0]

NatOf(bs) ==
  IF ~UFits(bs, 3) THEN Huge
  ELSE (IF Len(bs) >= 1 THEN bs[1] ELSE 0) + (IF Len(bs) >= 2 THEN 256 * bs[2] ELSE 0)
       + (IF Len(bs) >= 3 THEN 65536 * bs[3] ELSE 0)

Pow256(i) == CASE i = 0 -> 1 [] i = 1 -> 256 [] i = 2 -> 65536 [] i = 3 -> 16777216 [] OTHER -> 0
WordOfNat(n, w) == [i \in 1..w |-> IF i <= 4 THEN (n \div Pow256(i - 1)) % 256 ELSE 0]

IsWord(x, w) == /\ Len(x) = w
                /\ \A i \in 1..w : x[i] \in Byte

\* flattening of a sequence of equally sized words (O(n), no recursion)
FlattenWords(ws, sz) ==
  [i \in 1..(Len(ws) * sz) |-> ws[((i - 1) \div sz) + 1][((i - 1) % sz) + 1]]
\* splitting a byte string into cnt words of size sz starting after position pos (0-based)
SplitWords(bs, pos, cnt, sz) ==
  [i \in 1..cnt |-> SubSeq(bs, pos + (i - 1) * sz + 1, pos + i * sz)]

IsPrefixOf(p, s) == Len(p) <= Len(s) /\ \A i \in 1..Len(p) : p[i] = s[i]

\* expected bytes may contain the wildcard AnyByte (unspecified padding content)
AnyByte == -1
MatchBytes(exp, act) == Len(exp) = Len(act) /\ \A i \in 1..Len(exp) : exp[i] = AnyByte \/ exp[i] = act[i]
=============================================================================
