SPECIFICATION Spec
CONSTANTS MaxLen = 5 MaxIntr = 2
INVARIANTS TypeOK InOrder OkIsComplete LimitIsReal ErrorIsReal AgreesWithContract NoStuckState
CHECK_DEADLOCK FALSE
