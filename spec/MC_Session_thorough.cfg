SPECIFICATION Spec
CONSTANT MaxFrames = 3
INVARIANTS InOrder NoGhostSuccess
PROPERTY ErrorsAreSticky
CHECK_DEADLOCK FALSE
