SPECIFICATION Spec
CONSTANTS M = 16 MaxCalls = 3
CONSTANT Candidates <- MCCandidates
CONSTRAINT Bound
INVARIANTS TypeOK IndInv Safety Refines
CHECK_DEADLOCK FALSE
