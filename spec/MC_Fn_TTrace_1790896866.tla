---- MODULE MC_Fn_TTrace_1790896866 ----
EXTENDS Sequences, TLCExt, Toolbox, Naturals, TLC, MC_Fn

_expression ==
    LET MC_Fn_TEExpression == INSTANCE MC_Fn_TEExpression
    IN MC_Fn_TEExpression!expression
----

_trace ==
    LET MC_Fn_TETrace == INSTANCE MC_Fn_TETrace
    IN MC_Fn_TETrace!trace
----

_inv ==
    ~(
        TLCGet("level") = Len(_TETrace)
        /\
        i = (1)
    )
----

_init ==
    /\ i = _TETrace[1].i
----

_next ==
    /\ \E i,j \in DOMAIN _TETrace:
        /\ \/ /\ j = i + 1
              /\ i = TLCGet("level")
        /\ i  = _TETrace[i].i
        /\ i' = _TETrace[j].i

\* Uncomment the ASSUME below to write the states of the error trace
\* to the given file in Json format. Note that you can pass any tuple
\* to `JsonSerialize`. For example, a sub-sequence of _TETrace.
    \* ASSUME
    \*     LET J == INSTANCE Json
    \*         IN J!JsonSerialize("MC_Fn_TTrace_1790896866.json", _TETrace)

=============================================================================

 Note that you can extract this module `MC_Fn_TEExpression`
  to a dedicated file to reuse `expression` (the module in the 
  dedicated `MC_Fn_TEExpression.tla` file takes precedence 
  over the module `MC_Fn_TEExpression` below).

---- MODULE MC_Fn_TEExpression ----
EXTENDS Sequences, TLCExt, Toolbox, Naturals, TLC, MC_Fn

expression == 
    [
        \* To hide variables of the `MC_Fn` spec from the error trace,
        \* remove the variables below.  The trace will be written in the order
        \* of the fields of this record.
        i |-> i
        
        \* Put additional constant-, state-, and action-level expressions here:
        \* ,_stateNumber |-> _TEPosition
        \* ,_iUnchanged |-> i = i'
        
        \* Format the `i` variable as Json value.
        \* ,_iJson |->
        \*     LET J == INSTANCE Json
        \*     IN J!ToJson(i)
        
        \* Lastly, you may build expressions over arbitrary sets of states by
        \* leveraging the _TETrace operator.  For example, this is how to
        \* count the number of times a spec variable changed up to the current
        \* state in the trace.
        \* ,_iModCount |->
        \*     LET F[s \in DOMAIN _TETrace] ==
        \*         IF s = 1 THEN 0
        \*         ELSE IF _TETrace[s].i # _TETrace[s-1].i
        \*             THEN 1 + F[s-1] ELSE F[s-1]
        \*     IN F[_TEPosition - 1]
    ]

=============================================================================



Parsing and semantic processing can take forever if the trace below is long.
 In this case, it is advised to uncomment the module below to deserialize the
 trace from a generated binary file.

\*
\*---- MODULE MC_Fn_TETrace ----
\*EXTENDS IOUtils, TLC, MC_Fn
\*
\*trace == IODeserialize("MC_Fn_TTrace_1790896866.bin", TRUE)
\*
\*=============================================================================
\*

---- MODULE MC_Fn_TETrace ----
EXTENDS TLC, MC_Fn

trace == 
    <<
    ([i |-> 0]),
    ([i |-> 1])
    >>
----


=============================================================================

---- CONFIG MC_Fn_TTrace_1790896866 ----

INVARIANT
    _inv

CHECK_DEADLOCK
    \* CHECK_DEADLOCK off because of PROPERTY or INVARIANT above.
    FALSE

INIT
    _init

NEXT
    _next

CONSTANT
    _TETrace <- _trace

ALIAS
    _expression
=============================================================================
\* Generated on Thu Oct 01 23:21:09 UTC 2026