SPECIFICATION Spec
CONSTANTS Side = "w" MaxLen = 3 MaxLim = 4 MaxSteps = 3
INVARIANTS Confine Transparent OneContract EnsureExact
PROPERTY RefusalUntouched
CHECK_DEADLOCK FALSE
