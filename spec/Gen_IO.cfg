SPECIFICATION Spec
CONSTANTS Side = "r" Depth = 2
INVARIANT Emit
CHECK_DEADLOCK FALSE
