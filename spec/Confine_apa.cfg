INIT Init
NEXT Next
