----------------------------- MODULE MC_Tables -----------------------------
(***************************************************************************)
(* W6: for every pair of definitions that occur in one evolution history   *)
(* (at most MaxSteps steps from the empty definition), data written with   *)
(* either is read by the other as Project prescribes, the reader ending    *)
(* exactly after the table - also when further data follows.  The set of   *)
(* definitions reached is printed (Emitting) and becomes the version pool  *)
(* instantiated as C++ table types (pool/tables.json).                     *)
(***************************************************************************)
EXTENDS Tables, TLC, Json

CONSTANTS MaxSteps, Emitting

VARIABLES d, retired, seen, steps
vars == <<d, retired, seen, steps>>

Init == d = <<>> /\ retired = {} /\ seen = {<<>>} /\ steps = 0
Next == /\ steps < MaxSteps
        /\ \E s \in Steps(d, retired) :
             /\ d' = s.d
             /\ retired' = s.retired
             /\ seen' = seen \cup {s.d}
             /\ steps' = steps + 1
Spec == Init /\ [][Next]_vars

ReadsAs(A, B) ==
  LET SA == DefSchema(A)
      SB == DefSchema(B) IN
  \A v \in TableVals(SA) :
    LET bytes == Enc(SA, v)
        r == Dec(SB, Src(bytes \o <<42>>), 0, Inf) IN      \* followed by further data
    r = Ok(Project(SA, SB, v), Len(bytes))

W6 == \A x \in seen : ReadsAs(x, d) /\ ReadsAs(d, x)

\* ids are never reused
IdsNotReused == Present(d) \cap retired = {}

Emit == (Emitting /\ d # <<>>) => PrintT(ToJson(DefSchema(d)))
=============================================================================
