SPECIFICATION Spec
CONSTANT MaxFrames = 2
INVARIANTS InOrder NoGhostSuccess
PROPERTY ErrorsAreSticky
CHECK_DEADLOCK FALSE
