------------------------------ MODULE Confine ------------------------------
(***************************************************************************)
(* BoundedReader / BoundedWriter at the level of the machine arithmetic    *)
(* they are written in (include/nop/utility/bounded_reader.h and           *)
(* bounded_writer.h): `size_` and `index_` are std::size_t, every          *)
(* comparison is made on the *wrapped* difference `size_ - index_`, and    *)
(* `index_ += n` wraps.  M is the modulus of std::size_t.                  *)
(*                                                                         *)
(*   - TLC checks this module exhaustively for a small word (M = 16: every *)
(*     limit, every index, every request size, MC_Confine.tla) and checks  *)
(*     there that it takes exactly the steps of IO.tla's RStep / WStep,    *)
(*     the automaton the recorded traces of the real classes are validated *)
(*     against (TrIO.tla), where sizes near 2^64 are the negative numbers. *)
(*   - Apalache proves IndInv inductive for M = 2^64 (Confine_apa.cfg):    *)
(*     for *every* limit, index and request size in 0 .. 2^64 - 1.         *)
(*                                                                         *)
(* One action per public member function; `Inner` is one call on the       *)
(* wrapped reader / writer, which either performs the transfer of exactly  *)
(* n bytes or fails (after which nothing is claimed about it: `dead`).     *)
(* The reader and the writer have the same arithmetic: Ensure ~ Prepare,   *)
(* Read ~ Write, Skip ~ Skip, ReadPadding ~ WritePadding.                  *)
(***************************************************************************)
EXTENDS Integers

CONSTANT
  \* @type: Int;
  M

VARIABLES
  \* @type: Int;
  size,       \* size_   : the byte limit given at construction
  \* @type: Int;
  index,      \* index_  : bytes counted so far
  \* @type: Int;
  inner,      \* bytes the wrapped object has really transferred (a mathematical integer)
  \* @type: Int;
  ncalls,     \* calls the wrapped object has received
  \* @type: Bool;
  dead,       \* a call on the wrapped object has failed
  \* @type: Str;
  op,         \* the last member function called
  \* @type: Int;
  arg,        \* its size argument
  \* @type: Str;
  verdict,    \* "init" | "refused" (limit status, wrapped object not called) | "ok" | "innerfail"
  \* @type: Int;
  pinner,     \* inner before the last call
  \* @type: Int;
  pcalls,     \* ncalls before the last call
  \* @type: Int;
  pindex      \* index before the last call

vars == <<size, index, inner, ncalls, dead, op, arg, verdict, pinner, pcalls, pindex>>

\* std::size_t arithmetic (operands in 0 .. M-1)
Sub64(a, b) == IF a >= b THEN a - b ELSE a - b + M
Add64(a, b) == IF a + b >= M THEN a + b - M ELSE a + b

\* the values a std::size_t can take; quantification ranges over Candidates (all integers for the symbolic
\* checker, 0 .. M-1 for TLC through the configuration) filtered by InWord
InWord(x) == 0 <= x /\ x < M
Candidates == Int

Init ==
  /\ size \in Candidates /\ InWord(size)
  /\ index = 0 /\ inner = 0 /\ ncalls = 0 /\ dead = FALSE
  /\ op = "new" /\ arg = 0 /\ verdict = "init" /\ pinner = 0 /\ pcalls = 0 /\ pindex = 0

Remember == pinner' = inner /\ pcalls' = ncalls /\ pindex' = index

\* the limit status is returned without calling the wrapped object
Refuse(o, n) ==
  /\ Remember
  /\ op' = o /\ arg' = n /\ verdict' = "refused"
  /\ UNCHANGED <<size, index, inner, ncalls, dead>>

\* one call on the wrapped object moving n bytes (moves = FALSE: Ensure / Prepare move nothing);
\* on success the bounded object counts `count` more bytes
Forward(o, n, moves, count) ==
  /\ Remember
  /\ op' = o /\ arg' = n
  /\ ncalls' = ncalls + 1
  /\ UNCHANGED size
  /\ \/ /\ verdict' = "ok"
        /\ inner' = IF moves THEN inner + n ELSE inner
        /\ index' = Add64(index, count)
        /\ UNCHANGED dead
     \/ /\ verdict' = "innerfail"
        /\ dead' = TRUE
        /\ \E k \in Candidates : 0 <= k /\ k <= n /\ inner' = (IF moves THEN inner + k ELSE inner)    \* a failed transfer may be partial
        /\ UNCHANGED index

\* Status<void> Ensure(size) / Prepare(size): `if (size_ - index_ < size) return limit; else return inner->Ensure(size);`
Ensure(n) ==
  IF Sub64(size, index) < n THEN Refuse("ensure", n) ELSE Forward("ensure", n, FALSE, 0)

\* Status<void> Read(uint8_t*) / Write(uint8_t): `if (index_ < size_) { inner; index_ += 1; } else return limit;`
One ==
  IF index < size THEN Forward("one", 1, TRUE, 1) ELSE Refuse("one", 1)

\* Read(T* begin, T* end) / Write(const T*, const T*): `if (length_bytes > (size_ - index_)) return limit;`
Block(n) ==
  IF n > Sub64(size, index) THEN Refuse("block", n) ELSE Forward("block", n, TRUE, n)

\* Skip(padding_bytes[, value]): `if (padding_bytes > (size_ - index_)) return limit;`
Skip(n) ==
  IF n > Sub64(size, index) THEN Refuse("skip", n) ELSE Forward("skip", n, TRUE, n)

\* ReadPadding() / WritePadding(): `padding_bytes = size_ - index_; inner->Skip(padding_bytes); index_ += padding_bytes;`
Pad ==
  LET n == Sub64(size, index) IN Forward("pad", n, TRUE, n)

Next ==
  \/ \E n \in Candidates : InWord(n) /\ (Ensure(n) \/ Block(n) \/ Skip(n))
  \/ One
  \/ Pad

Spec == Init /\ [][Next]_vars

-----------------------------------------------------------------------------
TypeOK ==
  /\ InWord(size) /\ InWord(index) /\ InWord(arg) /\ InWord(pindex)
  /\ inner >= 0 /\ ncalls >= 0 /\ pinner >= 0 /\ pcalls >= 0
  /\ dead \in BOOLEAN
  /\ op \in {"new", "ensure", "one", "block", "skip", "pad"}
  /\ verdict \in {"init", "refused", "ok", "innerfail"}

\* C16 "never lets more than its byte limit be consumed from the wrapped reader"
Confine == ~dead => inner <= size

\* "... are counted only when they succeed": the count is the traffic
Counted == ~dead => inner = index

\* "a call that would cross the limit fails ... without touching the wrapped reader" - and only such a call
\* (stated on the mathematical difference, not the wrapped one)
RefusalExact ==
  verdict \in {"refused", "ok", "innerfail"} /\ op # "pad" =>
    ((verdict = "refused") <=> (arg > size - pindex))
RefusalUntouched ==
  verdict = "refused" => inner = pinner /\ ncalls = pcalls /\ index = pindex

\* "ReadPadding leaves the wrapped reader exactly at the limit"
PadExact == op = "pad" /\ verdict = "ok" /\ ~dead => inner = size /\ index = size

\* "calls within the limit behave exactly like the wrapped reader": exactly one call on it, with the same size
Transparent ==
  verdict \in {"ok", "innerfail"} => ncalls = pcalls + 1
  /\ (verdict = "ok" /\ op \in {"one", "block", "skip"} => inner = pinner + arg /\ index = pindex + arg)
  /\ (verdict = "ok" /\ op = "ensure" => inner = pinner /\ index = pindex)

\* the inductive invariant handed to Apalache (M = 2^64)
IndInv ==
  /\ TypeOK
  /\ index <= size
  /\ pindex <= size
  /\ Counted
  /\ RefusalExact /\ RefusalUntouched /\ PadExact /\ Transparent

\* IndInv as an initial-state predicate (the symbolic checker wants every variable assigned first)
IndInit ==
  /\ size \in Candidates /\ index \in Candidates /\ inner \in Candidates /\ ncalls \in Candidates
  /\ arg \in Candidates /\ pinner \in Candidates /\ pcalls \in Candidates /\ pindex \in Candidates
  /\ dead \in BOOLEAN
  /\ op \in {"new", "ensure", "one", "block", "skip", "pad"}
  /\ verdict \in {"init", "refused", "ok", "innerfail"}
  /\ IndInv

Safety == Confine /\ Counted /\ RefusalExact /\ RefusalUntouched /\ PadExact /\ Transparent

\* constant initialiser for Apalache
CInit64 == M = 65536 * 65536 * 65536 * 65536      \* (TLC rejects literals above 2^31 even when unused)
=============================================================================
