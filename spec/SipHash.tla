------------------------------ MODULE SipHash ------------------------------
(***************************************************************************)
(* SipHash-2-4 (Aumasson, Bernstein 2012) on 64-bit words represented as   *)
(* four 16-bit limbs, least significant first (TLC integers are 32 bit).   *)
(* Written from the paper's definition; the only libnop-specific parts are *)
(* the documented keys and the convention that a name is hashed as its     *)
(* string literal including the terminating NUL.                           *)
(***************************************************************************)
EXTENDS Naturals, Sequences, Bitwise, TLC

Limb == 65536
\* 64-bit word from 8 bytes, little-endian
WordOfBytes(b) == <<b[1] + 256 * b[2], b[3] + 256 * b[4], b[5] + 256 * b[6], b[7] + 256 * b[8]>>
BytesOfWord(w) == <<w[1] % 256, w[1] \div 256, w[2] % 256, w[2] \div 256, w[3] % 256, w[3] \div 256, w[4] % 256, w[4] \div 256>>

XorW(a, b) == <<a[1] ^^ b[1], a[2] ^^ b[2], a[3] ^^ b[3], a[4] ^^ b[4]>>   \* explicit tuples: strict, no lazy function values
AddW(a, b) ==
  LET s1 == a[1] + b[1]
      s2 == a[2] + b[2] + (s1 \div Limb)
      s3 == a[3] + b[3] + (s2 \div Limb)
      s4 == a[4] + b[4] + (s3 \div Limb) IN
  <<s1 % Limb, s2 % Limb, s3 % Limb, s4 % Limb>>
Pow2(n) == CASE n = 0 -> 1 [] n = 1 -> 2 [] n = 2 -> 4 [] n = 3 -> 8 [] n = 4 -> 16 [] n = 5 -> 32 [] n = 6 -> 64
             [] n = 7 -> 128 [] n = 8 -> 256 [] n = 9 -> 512 [] n = 10 -> 1024 [] n = 11 -> 2048 [] n = 12 -> 4096
             [] n = 13 -> 8192 [] n = 14 -> 16384 [] n = 15 -> 32768 [] n = 16 -> 65536
\* rotate left by r bits (0 < r < 64)
RotlW(x, r) ==
  LET q == r \div 16
      s == r % 16
      L(i) == x[((i - 1 - q + 8) % 4) + 1]                         \* limb rotation by q
      y == <<L(1), L(2), L(3), L(4)>>
      Sh(i) == ((y[i] * Pow2(s)) % Limb) + (y[((i - 2 + 4) % 4) + 1] \div Pow2(16 - s)) IN
  IF s = 0 THEN y ELSE <<Sh(1), Sh(2), Sh(3), Sh(4)>>

SipRound(v) ==
  LET a0 == AddW(v[1], v[2])
      b1 == XorW(RotlW(v[2], 13), a0)
      a0r == RotlW(a0, 32)
      a2 == AddW(v[3], v[4])
      b3 == XorW(RotlW(v[4], 16), a2)
      c0 == AddW(a0r, b3)
      d3 == XorW(RotlW(b3, 21), c0)
      c2 == AddW(a2, b1)
      d1 == XorW(RotlW(b1, 17), c2)
      c2r == RotlW(c2, 32) IN
  TLCEval(<<c0, d1, c2r, d3>>)    \* TLCEval: force eager evaluation (lazy arguments are otherwise re-evaluated)

Compress(v, m) ==
  LET v1 == TLCEval(<<v[1], v[2], v[3], XorW(v[4], m)>>)
      v2 == TLCEval(SipRound(TLCEval(SipRound(v1)))) IN
  TLCEval(<<XorW(v2[1], m), v2[2], v2[3], v2[4]>>)

RECURSIVE Blocks(_, _, _)
\* absorbs the full 8-byte blocks of msg starting at block index i (0-based)
Blocks(v, msg, i) ==
  IF 8 * (i + 1) > Len(msg) THEN v
  ELSE Blocks(TLCEval(Compress(v, TLCEval(WordOfBytes(SubSeq(msg, 8 * i + 1, 8 * i + 8))))), msg, i + 1)

C0 == <<25973, 28787, 28005, 29551>>   \* 0x736f6d6570736575 "somepseu"
C1 == <<28525, 28260, 29281, 25711>>   \* 0x646f72616e646f6d "dorandom"
C2 == <<29281, 28261, 26469, 27769>>   \* 0x6c7967656e657261 "lygenera"
C3 == <<25971, 31092, 25698, 29797>>   \* 0x7465646279746573 "tedbytes"

\* k0, k1: key words (limbs); msg: sequence of bytes. Result: limbs.
SipHash24(msg, k0, k1) ==
  LET n == Len(msg)
      v0 == <<XorW(k0, C0), XorW(k1, C1), XorW(k0, C2), XorW(k1, C3)>>
      vb == TLCEval(Blocks(TLCEval(v0), msg, 0))
      tail == SubSeq(msg, 8 * (n \div 8) + 1, n)
      last == [i \in 1..8 |-> IF i <= Len(tail) THEN tail[i] ELSE IF i = 8 THEN n % 256 ELSE 0]
      vf == TLCEval(Compress(vb, TLCEval(WordOfBytes(last))))
      vx == <<vf[1], vf[2], XorW(vf[3], <<255, 0, 0, 0>>), vf[4]>>
      ve == SipRound(TLCEval(SipRound(TLCEval(SipRound(TLCEval(SipRound(TLCEval(vx)))))))) IN
  XorW(XorW(ve[1], ve[2]), XorW(ve[3], ve[4]))

\* as 8 bytes, little-endian
SipHashBytes(msg, k0b, k1b) == BytesOfWord(SipHash24(msg, WordOfBytes(k0b), WordOfBytes(k1b)))

\* ---- libnop's documented keys -----------------------------------------------
TableKey0 == <<239, 190, 173, 222, 13, 240, 173, 186>>      \* 0xbaadf00ddeadbeef
TableKey1 == <<239, 205, 171, 137, 103, 69, 35, 1>>         \* 0x0123456789abcdef
IfaceKey0 == <<13, 240, 173, 186, 254, 202, 173, 222>>      \* 0xdeadcafebaadf00d
IfaceKey1 == <<239, 205, 171, 137, 103, 69, 35, 1>>         \* 0x0123456789abcdef

Literal(name) == name \o <<0>>     \* a string literal's array includes its terminator
TableHash(name) == SipHashBytes(Literal(name), TableKey0, TableKey1)
InterfaceHash(name) == SipHashBytes(Literal(name), IfaceKey0, IfaceKey1)
\* a method selector is the method name hashed under (interface hash, key1), truncated to the selector width
Selector(method, ihash, width) == SubSeq(SipHashBytes(Literal(method), ihash, IfaceKey1), 1, width)
=============================================================================
