------------------------------ MODULE MC_Wire ------------------------------
(***************************************************************************)
(* Theorems of the format (DESIGN.md 3.2), checked by TLC on the           *)
(* specification alone, over SmallVals of a small pool of schemas:         *)
(*   W1  Dec(S, Enc(S, v)) = ok(v, Len(Enc))                               *)
(*   W2  every strict prefix of Enc(S, v) is rejected as truncated          *)
(*   W3  the integer class chosen is minimal; accepted classes are exactly  *)
(*       those no wider than the destination                               *)
(*   W4  SizeEst >= Len(Enc), equal without handles; appending bytes does   *)
(*       not change what is decoded (prefix-freeness of valid encodings)    *)
(* Each (schema, value) pair is one initial state, so the evaluation is     *)
(* spread over all TLC workers.                                            *)
(***************************************************************************)
EXTENDS Hostile, Schema

CONSTANT Depth      \* 0: rich top-level values

U8 == TInt(1, FALSE)   U16 == TInt(2, FALSE)  U32 == TInt(4, FALSE)  U64 == TInt(8, FALSE)
I8 == TInt(1, TRUE)    I16 == TInt(2, TRUE)   I32 == TInt(4, TRUE)   I64 == TInt(8, TRUE)
S8 == TStr(1)
SA == TStruct(<<U8, S8>>)
W0 == <<0, 0, 0, 0, 0, 0, 0, 0>>
WId(n) == WordOfNat(n, 8)
TA == TTable(W0, <<TEntry(WId(0), TRUE, U8), TEntry(WId(1), TRUE, S8)>>)
TB == TTable(<<136, 119, 102, 85, 68, 51, 34, 17>>,
             <<TEntry(WId(0), TRUE, U32), TEntry(WId(5), FALSE, S8), TEntry(WId(200), TRUE, TVec(U8))>>)
TH == TTable(WId(7), <<TEntry(WId(0), TRUE, THnd), TEntry(WId(1), TRUE, U8)>>)
TN == TTable(W0, <<TEntry(WId(0), TRUE, TA), TEntry(WId(2), TRUE, U16)>>)

MCTypes == <<
  TBool, TChar, U8, U16, U32, U64, I8, I16, I32, I64, TEnum(2, TRUE), TFlt(4), TFlt(8),
  S8, TStr(2), TStr(4),
  TVec(U8), TVec(I16), TVec(U32), TVec(S8), TVec(TFlt(4)), TVec(TVec(U16)),
  TArr(U8, 2), TArr(I32, 2), TArr(S8, 2), TArr(TBool, 2),
  TLbuf(U8, 4, 1, FALSE), TLbuf(U32, 3, 1, FALSE), TLbuf(U16, 3, 4, TRUE), TLbuf(S8, 2, 4, FALSE),
  TPair(U8, S8), TTup(<<>>), TTup(<<I32>>), TTup(<<U8, S8, TVec(U8)>>), SA, TStruct(<<>>), TStruct(<<SA, U16>>),
  TMap(U32, S8), TMap(U8, TVec(U8)),
  TOpt(U8), TOpt(S8), TOpt(SA), TRes(TEnum(1, FALSE), U32), TRes(TEnum(4, TRUE), S8),
  TVar(<<I32>>), TVar(<<I32, S8>>), TVar(<<U8, S8, TVec(U8)>>), TVar(<<TVar(<<U8, S8>>), U16>>),
  TWrap(U32), TWrap(S8),
  THnd, TVec(THnd), TOpt(THnd), TStruct(<<U8, THnd, THnd>>),
  TA, TB, TH, TN, TVec(TA), TStruct(<<U8, TA, U8>>)
>>

\* all (schema, value) pairs, precomputed once
AllVals == [t \in 1..Len(MCTypes) |-> SmallVals(MCTypes[t], Depth)]

VARIABLES ti, vi
vars == <<ti, vi>>

Init == ti = 0 /\ vi = 0
Next == \/ ti = 0 /\ ti' \in 1..Len(MCTypes) /\ vi' = 0
        \/ ti > 0 /\ vi = 0 /\ vi' \in 1..Len(AllVals[ti]) /\ ti' = ti
Spec == Init /\ [][Next]_vars

Live == ti > 0 /\ vi > 0
v == AllVals[ti][vi]
S == MCTypes[ti]
EmptyRef == <<255, 255, 255, 255, 255, 255, 255, 255>>
\* references a writer hands out: -1 for an empty handle, otherwise distinct numbers
Pushes == EncR(S, v, RealCtx(<<>>), 1).push
Refs == [i \in 1..Len(Pushes) |-> IF Pushes[i] = THnd.ev THEN EmptyRef ELSE WordOfNat(100 + 37 * i, 8)]
HTab == [r \in {Refs[i] : i \in 1..Len(Refs)} \ {EmptyRef} |-> Pushes[CHOOSE i \in 1..Len(Refs) : Refs[i] = r]]
Encoded == EncR(S, v, RealCtx(Refs), 1)
Bytes0 == [i \in 1..Len(Encoded.b) |-> IF Encoded.b[i] = AnyByte THEN 0 ELSE Encoded.b[i]]   \* padding as zeros
SrcOf(bs) == [bs |-> bs, ht |-> HTab, viw |-> VarIndexWidth]

W1B == Encoded.err = 0 /\ Dec(S, SrcOf(Bytes0), 0, Inf) = Ok(v, Len(Bytes0))

W2B == \A n \in 0..(Len(Bytes0) - 1) :
        LET d == Dec(S, SrcOf(Take(Bytes0, n)), 0, Inf) IN ~d.ok /\ E_Src \in d.errs

\* appended data is left alone: the decoder stops exactly at the end of the encoding
W4bB == \A t \in {<<0>>, <<190>>, <<255, 0>>} :
        Dec(S, SrcOf(Bytes0 \o t), 0, Inf) = Ok(v, Len(Bytes0))

W4B == /\ SizeEst(S, v) >= Len(Bytes0)
      /\ ~HasHandle(S) => SizeEst(S, v) = Len(Bytes0)

\* a bounded frame that is exactly as long as the encoding suffices; one byte less is refused with the limit error
W2fB == /\ Dec(S, SrcOf(Bytes0), 0, Len(Bytes0)) = Ok(v, Len(Bytes0))
       /\ Len(Bytes0) > 0 => LET d == Dec(S, SrcOf(Bytes0), 0, Len(Bytes0) - 1) IN ~d.ok /\ E_Limit \in d.errs

\* W3 for integer-like schemas
ClassPrefixes(signed) == IF signed THEN {P_I8, P_I16, P_I32, P_I64} ELSE {P_U8, P_U16, P_U32, P_U64}
W3B == IsIntLike(S) =>
        LET b == Encoded.b
            cw == ClassWidth(b[1], S.s) IN
        /\ AcceptsClass(b[1], S.w, S.s)
        /\ Len(b) = 1 + cw
        \* minimal: the value does not fit the next narrower class
        /\ cw = 1 => ~(IF S.s THEN SFits(v, 1) /\ (v[1] < 128 \/ v[1] >= 192) ELSE UFits(v, 1) /\ v[1] < 128)
        /\ cw > 1 => ~(IF S.s THEN SFits(v, cw \div 2) ELSE UFits(v, cw \div 2))
        \* every class of the same signedness no wider than the destination decodes; wider ones are refused
        /\ \A p \in ClassPrefixes(S.s) :
             LET pw == ClassWidth(p, S.s)
                 src == <<p>> \o [i \in 1..pw |-> 1]
                 d == Dec(S, SrcOf(src), 0, Inf) IN
             IF pw <= S.w THEN d.ok /\ d.pos = 1 + pw ELSE ~d.ok /\ d.errs = {E_Type}
        \* classes of the other signedness are refused (fixints above 127 for unsigned)
        /\ \A p \in ClassPrefixes(~S.s) : ~Dec(S, SrcOf(<<p, 1, 1, 1, 1, 1, 1, 1, 1>>), 0, Inf).ok
        /\ S.s = FALSE => ~Dec(S, SrcOf(<<200>>), 0, Inf).ok
\* the field-numbering encoder of Hostile.tla without a mutation is the encoder of Wire.tla
EncMFaithfulB == EncM(S, v, MCtx(Refs, NoMut), 1, 1).b = Bytes0
EncMFaithful == Live => EncMFaithfulB
W1 == Live => W1B
W2 == Live => W2B
W4b == Live => W4bB
W4 == Live => W4B
W2f == Live => W2fB
W3 == Live => W3B
=============================================================================
