-------------------------------- MODULE TrFung --------------------------------
(***************************************************************************)
(* Trace specification for C09: the compile-time relation IsFungible as    *)
(* evaluated by the compiler over all ordered pairs of the type grammar    *)
(* (FUNG event) and the run-time meaning of every pair it declares         *)
(* fungible (X events: write as A, read as B, re-encode as B).             *)
(***************************************************************************)
EXTENDS Fungible, Json, IOUtils, TLC

Log == ndJsonDeserialize(IOEnv.TRACE)
Types == JsonDeserialize(IOEnv.TYPES)
VARIABLES l, nrej
vars == <<l, nrej>>
Has(r, f) == f \in DOMAIN r
Tag(cond, tag) == IF cond THEN {} ELSE {tag}
T(tid) == Types[tid]

RECURSIVE ContainsMap(_)
ContainsMap(S) ==
  CASE S.k \in {"map", "umap"} -> TRUE
    [] S.k \in {"vec", "arr", "carr", "lbuf", "ref", "wrap", "opt"} -> ContainsMap(S.e)
    [] S.k \in {"pair", "tup", "struct", "var"} -> \E i \in 1..Len(S.m) : ContainsMap(S.m[i])
    [] S.k = "res" -> ContainsMap(S.e)
    [] S.k = "table" -> \E i \in 1..Len(S.ents) : S.ents[i].act /\ ContainsMap(S.ents[i].e)
    [] OTHER -> FALSE

FungFails(e) ==
  LET n == Len(e.tids) IN
  UNION {
    (IF i = j THEN Tag(e.value[i][i], "not-reflexive:" \o e.tids[i]) ELSE {})
    \cup Tag(e.value[i][j] = e.value[j][i], "not-symmetric:" \o e.tids[i] \o "/" \o e.tids[j])
    \cup Tag(DocFungible(T(e.tids[i]), T(e.tids[j])) => e.value[i][j], "documented-pair-false:" \o e.tids[i] \o "/" \o e.tids[j])
    \cup Tag(e.value[i][j] = e.admits[i][j], "protocol-admission:" \o e.tids[i] \o "/" \o e.tids[j])
    : i \in 1..n, j \in 1..n}

\* every encoding of an A value whose element counts fit B decodes as B to the corresponding value and
\* re-encodes to the same bytes
CrossFails(e) ==
  IF ~e.fungible THEN {}
  ELSE LET Sa == T(e.a)
           Sb == T(e.b) IN
  \* a value of A that the format can express must be written (only a non-encodable value may be refused)
  IF e.stA # 0 THEN Tag(EncR(Sa, e.v, RealCtx(<<>>), 1).err # 0, "encodable-value-refused")
  ELSE LET d == Dec(Sb, Src(e.bytes), 0, Inf) IN
    IF d.ok
    THEN Tag(e.stB = 0, "rejected-by-B")
         \cup (IF e.stB = 0 THEN Tag(e.used = Len(e.bytes) /\ d.pos = Len(e.bytes), "consumed")
                                 \cup Tag(Norm(Sb, e.vB) = Norm(Sa, e.v), "corresponding-value")
                                 \cup Tag(Norm(Sb, d.v) = Norm(Sa, e.v), "corresponding-value-spec")
                                 \* (a map's entries are written in the container's own iteration order: for types that
                                 \*  contain maps the re-encoding is compared up to the order of map entries)
                                 \cup Tag(e.st2 = 0 /\ (IF ContainsMap(Sb)
                                                         THEN Len(e.bytes2) = Len(e.bytes)
                                                              /\ LET d2 == Dec(Sb, Src(e.bytes2), 0, Inf) IN d2.ok /\ Norm(Sb, d2.v) = Norm(Sa, e.v)
                                                         ELSE e.bytes2 = e.bytes), "re-encoding")
               ELSE {})
    ELSE IF d.errs \subseteq {E_Length} THEN {}   \* the element count does not fit B's capacity: outside the statement
    ELSE {"not-wire-compatible"}

Fails(e) ==
  IF e.e \in {"UB", "Crash", "Exc", "Timeout", "BadCmd", "Race"} THEN {"abnormal"}
  ELSE CASE e.e = "FUNG" -> FungFails(e) [] e.e = "X" -> CrossFails(e) [] OTHER -> {}

Init == l = 1 /\ nrej = 0
Step ==
  /\ l <= Len(Log)
  /\ LET e == Log[l]
         why == Fails(e)
         ok == why = {} IN
     /\ (IF ok THEN TRUE ELSE PrintT("REJECT " \o ToJson([l |-> l, idx |-> e.idx, e |-> e.e, why |-> why])))
     /\ nrej' = IF ok THEN nrej ELSE nrej + 1
  /\ l' = l + 1
Done == l = Len(Log) + 1 /\ PrintT("DONE " \o ToJson([n |-> Len(Log), nrej |-> nrej])) /\ UNCHANGED vars
Next == Step \/ Done
Spec == Init /\ [][Next]_vars
=============================================================================
