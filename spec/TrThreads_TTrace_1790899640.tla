---- MODULE TrThreads_TTrace_1790899640 ----
EXTENDS Sequences, TLCExt, Toolbox, TrThreads, Naturals, TLC

_expression ==
    LET TrThreads_TEExpression == INSTANCE TrThreads_TEExpression
    IN TrThreads_TEExpression!expression
----

_trace ==
    LET TrThreads_TETrace == INSTANCE TrThreads_TETrace
    IN TrThreads_TETrace!trace
----

_inv ==
    ~(
        TLCGet("level") = Len(_TETrace)
        /\
        nrej = (0)
        /\
        l = (2)
    )
----

_init ==
    /\ l = _TETrace[1].l
    /\ nrej = _TETrace[1].nrej
----

_next ==
    /\ \E i,j \in DOMAIN _TETrace:
        /\ \/ /\ j = i + 1
              /\ i = TLCGet("level")
        /\ l  = _TETrace[i].l
        /\ l' = _TETrace[j].l
        /\ nrej  = _TETrace[i].nrej
        /\ nrej' = _TETrace[j].nrej

\* Uncomment the ASSUME below to write the states of the error trace
\* to the given file in Json format. Note that you can pass any tuple
\* to `JsonSerialize`. For example, a sub-sequence of _TETrace.
    \* ASSUME
    \*     LET J == INSTANCE Json
    \*         IN J!JsonSerialize("TrThreads_TTrace_1790899640.json", _TETrace)

=============================================================================

 Note that you can extract this module `TrThreads_TEExpression`
  to a dedicated file to reuse `expression` (the module in the 
  dedicated `TrThreads_TEExpression.tla` file takes precedence 
  over the module `TrThreads_TEExpression` below).

---- MODULE TrThreads_TEExpression ----
EXTENDS Sequences, TLCExt, Toolbox, TrThreads, Naturals, TLC

expression == 
    [
        \* To hide variables of the `TrThreads` spec from the error trace,
        \* remove the variables below.  The trace will be written in the order
        \* of the fields of this record.
        l |-> l
        ,nrej |-> nrej
        
        \* Put additional constant-, state-, and action-level expressions here:
        \* ,_stateNumber |-> _TEPosition
        \* ,_lUnchanged |-> l = l'
        
        \* Format the `l` variable as Json value.
        \* ,_lJson |->
        \*     LET J == INSTANCE Json
        \*     IN J!ToJson(l)
        
        \* Lastly, you may build expressions over arbitrary sets of states by
        \* leveraging the _TETrace operator.  For example, this is how to
        \* count the number of times a spec variable changed up to the current
        \* state in the trace.
        \* ,_lModCount |->
        \*     LET F[s \in DOMAIN _TETrace] ==
        \*         IF s = 1 THEN 0
        \*         ELSE IF _TETrace[s].l # _TETrace[s-1].l
        \*             THEN 1 + F[s-1] ELSE F[s-1]
        \*     IN F[_TEPosition - 1]
    ]

=============================================================================



Parsing and semantic processing can take forever if the trace below is long.
 In this case, it is advised to uncomment the module below to deserialize the
 trace from a generated binary file.

\*
\*---- MODULE TrThreads_TETrace ----
\*EXTENDS IOUtils, TrThreads, TLC
\*
\*trace == IODeserialize("TrThreads_TTrace_1790899640.bin", TRUE)
\*
\*=============================================================================
\*

---- MODULE TrThreads_TETrace ----
EXTENDS TrThreads, TLC

trace == 
    <<
    ([nrej |-> 0,l |-> 1]),
    ([nrej |-> 0,l |-> 2])
    >>
----


=============================================================================

---- CONFIG TrThreads_TTrace_1790899640 ----

INVARIANT
    _inv

CHECK_DEADLOCK
    \* CHECK_DEADLOCK off because of PROPERTY or INVARIANT above.
    FALSE

INIT
    _init

NEXT
    _next

CONSTANT
    _TETrace <- _trace

ALIAS
    _expression
=============================================================================
\* Generated on Fri Oct 02 00:07:21 UTC 2026