----------------------------- MODULE Gen_Endian -----------------------------
(* Emits, from Endian.tla, the byte-index map of every operation on the given host
   for 4-byte objects; the executor applies the emitted map to all 2^32 inputs. *)
EXTENDS Endian, TLC, Json
CONSTANTS HostLE
VARIABLE done
Init == done = FALSE
Next == ~done /\ done' = TRUE
Spec == Init /\ [][Next]_done
Emit == done => PrintT(ToJson([op \in Ops |-> ByteMap(op, HostLE, 4)]))
=============================================================================
