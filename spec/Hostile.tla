------------------------------- MODULE Hostile -------------------------------
(***************************************************************************)
(* Field-level hostile encodings (C02, C04), generated from the format     *)
(* knowledge of the specification.  EncM is the encoder of Wire.tla with   *)
(* every *integer field* (values, lengths, counts, ids, hashes, variant    *)
(* indices, handle types and references, entry sizes) numbered in encoding *)
(* order; one chosen field is re-encoded                                   *)
(*   - in another class of the integer format (wider than minimal, wider   *)
(*     than the destination, of the other signedness), or                  *)
(*   - with another value (0, n-1, n+1, 2n, n + 2^8, n + 2^16, n + 2^32,   *)
(*     2^16, 2^32, 2^63, 2^64 - 1: counts that overflow a narrow size      *)
(*     member or an allocation), in its minimal class, or                  *)
(*   - (count field of a map) with its pairs in the opposite order, a      *)
(*     valid encoding the library's own writers never emit,                *)
(* while everything else is encoded faithfully.  MC checks that EncM       *)
(* without a mutation is EncR (EncMFaithful).                               *)
(***************************************************************************)
EXTENDS Wire

NoMut == [f |-> 0, how |-> "none", arg |-> 0]

\* class prefix for a payload width
UPrefix(w) == CASE w = 1 -> P_U8 [] w = 2 -> P_U16 [] w = 4 -> P_U32 [] w = 8 -> P_U64
SPrefix(w) == CASE w = 1 -> P_I8 [] w = 2 -> P_I16 [] w = 4 -> P_I32 [] w = 8 -> P_I64

\* 8-byte word arithmetic on little-endian byte sequences (for the value mutations)
RECURSIVE AddBytes(_, _, _, _)
AddBytes(a, b, i, carry) ==
  IF i > 8 THEN <<>>
  ELSE LET s == a[i] + b[i] + carry IN <<s % 256>> \o AddBytes(a, b, i + 1, s \div 256)
W8(word, signed) == IF signed THEN SignExt(word, 8) ELSE ZeroExt(word, 8)
Bit(k) == [i \in 1..8 |-> IF i = (k \div 8) + 1 THEN (IF (k % 8) = 7 THEN 128 ELSE 1) ELSE 0]     \* k in {8, 16, 32, 63}
One8 == <<1, 0, 0, 0, 0, 0, 0, 0>>
MinusOne8 == <<255, 255, 255, 255, 255, 255, 255, 255>>
ValueMut(word, signed, which) ==
  LET x == W8(word, signed) IN
  CASE which = "zero" -> <<0, 0, 0, 0, 0, 0, 0, 0>>
    [] which = "plus1" -> AddBytes(x, One8, 1, 0)
    [] which = "minus1" -> AddBytes(x, MinusOne8, 1, 0)
    [] which = "double" -> AddBytes(x, x, 1, 0)
    [] which = "plus2^8" -> AddBytes(x, Bit(8), 1, 0)
    [] which = "plus2^16" -> AddBytes(x, Bit(16), 1, 0)
    [] which = "plus2^32" -> AddBytes(x, Bit(32), 1, 0)
    [] which = "2^16" -> Bit(16)
    [] which = "2^32" -> Bit(32)
    [] which = "2^63" -> Bit(63)
    [] which = "max" -> MinusOne8
ValueMuts == {"zero", "plus1", "minus1", "double", "plus2^8", "plus2^16", "plus2^32", "2^16", "2^32", "2^63", "max"}

\* encoding of one integer field, possibly mutated. mut.how: "class-u" / "class-s" (arg = payload width),
\* "value" (arg = which), "none"
EncField(word, signed, mut, f) ==
  IF mut.f # f THEN EncInt(word, signed)
  ELSE CASE mut.how = "class-u" -> <<UPrefix(mut.arg)>> \o ZeroExt(word, mut.arg)
         [] mut.how = "class-s" -> <<SPrefix(mut.arg)>> \o SignExt(word, mut.arg)
         [] mut.how = "value" -> EncInt(ValueMut(word, signed, mut.arg), signed)
         [] OTHER -> EncInt(word, signed)

MR(b, k, f, push, err) == [b |-> b, k |-> k, f |-> f, push |-> push, err |-> err]
NatField(n, mut, f) == EncField(WordOfNat(n, 8), FALSE, mut, f)

RECURSIVE EncM(_, _, _, _, _), EncMSeq(_, _, _, _, _, _), EncMMembers(_, _, _, _, _, _), EncMMap(_, _, _, _, _, _),
          EncMEntries(_, _, _, _, _, _)

EncMSeq(S, vs, ctx, k, f, i) ==
  IF i > Len(vs) THEN MR(<<>>, k, f, <<>>, 0)
  ELSE LET h == EncM(S, vs[i], ctx, k, f) IN
       IF h.err # 0 THEN h
       ELSE LET t == EncMSeq(S, vs, ctx, h.k, h.f, i + 1) IN MR(h.b \o t.b, t.k, t.f, h.push \o t.push, t.err)
EncMMembers(Ss, vs, ctx, k, f, i) ==
  IF i > Len(Ss) THEN MR(<<>>, k, f, <<>>, 0)
  ELSE LET h == EncM(Ss[i], vs[i], ctx, k, f) IN
       IF h.err # 0 THEN h
       ELSE LET t == EncMMembers(Ss, vs, ctx, h.k, h.f, i + 1) IN MR(h.b \o t.b, t.k, t.f, h.push \o t.push, t.err)
EncMMap(S, kvs, ctx, k, f, i) ==
  IF i > Len(kvs) THEN MR(<<>>, k, f, <<>>, 0)
  ELSE LET a == EncM(S.key, kvs[i][1], ctx, k, f)
           b == EncM(S.val, kvs[i][2], ctx, a.k, a.f)
           t == EncMMap(S, kvs, ctx, b.k, b.f, i + 1) IN
       MR(a.b \o b.b \o t.b, t.k, t.f, a.push \o b.push \o t.push, t.err)
EncMEntries(S, v, ctx, k, f, i) ==
  IF i > Len(S.ents) THEN MR(<<>>, k, f, <<>>, 0)
  ELSE IF ~(S.ents[i].act /\ v.t[i].p) THEN EncMEntries(S, v, ctx, k, f, i + 1)
  ELSE LET est == EncR(S.ents[i].e, v.t[i].v, [mode |-> "est", refs |-> ctx.refs], k)
           \* fields: f = id, f + 1 = declared size, then the fields of the value
           real == EncM(S.ents[i].e, v.t[i].v, ctx, k, f + 2)
           decl == Len(est.b)
           pad == IF decl > Len(real.b) THEN [j \in 1..(decl - Len(real.b)) |-> 0] ELSE <<>>
           hd == EncField(S.ents[i].id, FALSE, ctx.mut, f) \o NatField(decl, ctx.mut, f + 1)
           t == EncMEntries(S, v, ctx, real.k, real.f, i + 1) IN
       MR(hd \o real.b \o pad \o t.b, t.k, t.f, real.push \o t.push, t.err)

EncM(S, v, ctx, k, f) ==
  LET mut == ctx.mut IN
  CASE S.k = "bool" -> MR(<<v[1]>>, k, f, <<>>, 0)
    [] S.k = "char" -> MR(EncField(v, FALSE, mut, f), k, f + 1, <<>>, 0)
    [] S.k \in {"int", "enum"} -> MR(EncField(v, S.s, mut, f), k, f + 1, <<>>, 0)
    [] S.k = "flt" -> MR(<<IF S.w = 4 THEN P_F32 ELSE P_F64>> \o v, k, f, <<>>, 0)
    [] S.k = "str" -> MR(<<P_STR>> \o NatField(Len(v.b), mut, f) \o v.b, k, f + 1, <<>>, 0)
    [] S.k \in {"vec", "arr", "carr", "lbuf"} ->
         IF IsIntegral(S.e)
         THEN MR(<<P_BIN>> \o NatField(Len(v.n) * ElemSize(S.e), mut, f) \o FlattenWords(v.n, ElemSize(S.e)), k, f + 1, <<>>, 0)
         ELSE LET t == EncMSeq(S.e, v.n, ctx, k, f + 1, 1) IN
              MR(<<P_ARY>> \o NatField(Len(v.n), mut, f) \o t.b, t.k, t.f, t.push, t.err)
    [] S.k \in {"pair", "tup", "struct"} ->
         LET t == EncMMembers(S.m, v.m, ctx, k, f + 1, 1) IN
         MR(<<IF S.k = "struct" THEN P_STU ELSE P_ARY>> \o NatField(Len(S.m), mut, f) \o t.b, t.k, t.f, t.push, t.err)
    [] S.k \in {"map", "umap"} ->
         \* "reverse" on the count field of a map: the same pairs in the opposite order - a *valid* encoding that the
         \* library's own std::map writer never produces (the format does not order map entries)
         LET kvs == IF mut.f = f /\ mut.how = "reverse" THEN [j \in 1..Len(v.kv) |-> v.kv[Len(v.kv) + 1 - j]] ELSE v.kv
             t == EncMMap(S, kvs, ctx, k, f + 1, 1) IN
         MR(<<P_MAP>> \o NatField(Len(v.kv), mut, f) \o t.b, t.k, t.f, t.push, t.err)
    [] S.k \in {"ref", "wrap"} -> EncM(S.e, v, ctx, k, f)
    [] S.k = "opt" -> IF Len(v.o) = 0 THEN MR(<<P_NIL>>, k, f, <<>>, 0) ELSE EncM(S.e, v.o[1], ctx, k, f)
    [] S.k = "res" ->
         IF v.r = "val" THEN EncM(S.e, v.v, ctx, k, f)
         ELSE MR(<<P_ERR>> \o EncField(IF "e" \in DOMAIN v THEN v.e ELSE [j \in 1..S.err.w |-> 0], S.err.s, mut, f), k, f + 1, <<>>, 0)
    [] S.k = "emptyvar" -> MR(<<P_NIL>>, k, f, <<>>, 0)
    [] S.k = "var" ->
         IF v.i = <<255, 255, 255, 255>> THEN MR(<<P_VAR>> \o EncField(v.i, TRUE, mut, f) \o <<P_NIL>>, k, f + 1, <<>>, 0)
         ELSE LET t == EncM(S.m[NatOf(v.i) + 1], v.v, ctx, k, f + 1) IN
              MR(<<P_VAR>> \o EncField(v.i, TRUE, mut, f) \o t.b, t.k, t.f, t.push, t.err)
    [] S.k = "hnd" ->
         LET ref == IF k <= Len(ctx.refs) THEN ctx.refs[k] ELSE MinusOne8 IN
         MR(<<P_HND>> \o EncField(S.tv, S.tt.s, mut, f) \o EncField(ref, TRUE, mut, f + 1), k + 1, f + 2, <<v.h>>, 0)
    [] S.k = "table" ->
         LET t == EncMEntries(S, v, ctx, k, f + 2, 1) IN
         MR(<<P_TAB>> \o EncField(S.hash, FALSE, mut, f) \o NatField(ActiveCount(S, v), mut, f + 1) \o t.b, t.k, t.f, t.push, t.err)

MCtx(refs, mut) == [refs |-> refs, mut |-> mut]
NumFields(S, v, refs) == EncM(S, v, MCtx(refs, NoMut), 1, 1).f - 1

\* every mutation of every field of the encoding of v
FieldMutants(S, v, refs) ==
  LET n == NumFields(S, v, refs) IN
  UNION {
    {[b |-> EncM(S, v, MCtx(refs, [f |-> fi, how |-> "class-u", arg |-> w]), 1, 1).b, label |-> <<"class-u", fi, w>>] : w \in {1, 2, 4, 8}}
    \cup {[b |-> EncM(S, v, MCtx(refs, [f |-> fi, how |-> "class-s", arg |-> w]), 1, 1).b, label |-> <<"class-s", fi, w>>] : w \in {1, 2, 4, 8}}
    \cup {[b |-> EncM(S, v, MCtx(refs, [f |-> fi, how |-> "value", arg |-> m]), 1, 1).b, label |-> <<"value", fi, m>>] : m \in ValueMuts}
    \cup (LET r == EncM(S, v, MCtx(refs, [f |-> fi, how |-> "reverse", arg |-> 0]), 1, 1).b IN
          IF r # EncM(S, v, MCtx(refs, NoMut), 1, 1).b THEN {[b |-> r, label |-> <<"reverse", fi, 0>>]} ELSE {})
    : fi \in 1..n}
=============================================================================
