--------------------------------- MODULE IO ---------------------------------
(***************************************************************************)
(* Readers and writers as automata, written from the contract in           *)
(* docs/getting-started.md ("Basic Reader Interface", "Basic Writer        *)
(* Interface") and the class comments of include/nop/utility/*.h.          *)
(*                                                                         *)
(* A size is a natural number or Huge(d) = 2^64 - d, represented as -d, so *)
(* that "sizes near 2^64" are first-class without wide arithmetic.          *)
(*                                                                         *)
(* Reader state:  [kind, src, pos, b, lim, idx, fk, fe, nc, dead]           *)
(*   kind  "buffer" | "pedantic" | "sstream" | "fstream" | "fd"             *)
(*   src   the bytes of the source;  pos  bytes consumed from it            *)
(*   b     TRUE: wrapped in a BoundedReader with byte limit lim, idx used   *)
(*   fk,fe the wrapped object fails its fk-th call with code fe (0: never)  *)
(*   nc    calls the wrapped object has received                            *)
(*   dead  the wrapped object has failed (stream state is then unspecified) *)
(* Writer state:  [kind, cap, out, b, lim, idx, fk, fe, nc, dead, ub]        *)
(*                                                                         *)
(* How a descriptor delivers its bytes is not part of the state: a pipe    *)
(* that hands over a block in bursts, a system call that transfers fewer   *)
(* bytes than asked or fails with EINTR before transferring any are steps  *)
(* of the environment that leave (src, pos) resp. out unchanged, i.e.      *)
(* stuttering steps of this specification.  The traces therefore record    *)
(* such sources and sinks with kind "fd" (and a flag naming the            *)
(* environment: burst, intr); the contract they are judged by is the same. *)
(***************************************************************************)
EXTENDS Bytes

OK == 0
ReadLimit == 12
WriteLimit == 13
StreamErr == 14

IsHugeSize(n) == n < 0
\* n bytes fit into a budget of r bytes
FitsIn(n, r) == n >= 0 /\ n <= r

BoundedKinds == {"buffer", "pedantic"}           \* Ensure() really checks
StreamKinds == {"sstream", "fstream"}
ReaderKinds == {"buffer", "pedantic", "sstream", "fstream", "fd", "fdbad"}
\* "fdbad": FdReader on a descriptor that cannot be read (EBADF): no byte is ever delivered, every transfer of at
\* least one byte fails with IOError
IOErr == 16
WriterKinds == {"buffer", "pedantic", "constexpr", "sstream", "fd", "lstream", "fdfull", "fdpart"}
\* "lstream": StreamWriter over an output stream whose buffer takes exactly cap bytes; "fdfull": FdWriter on a
\* descriptor that takes nothing (ENOSPC); "fdpart": FdWriter on a non-blocking pipe with room for exactly cap more
\* bytes (a block may be taken in part, then EAGAIN) - the error paths of the unchecked writers
Unprepared == {"sstream", "fd", "lstream", "fdfull", "fdpart"}      \* Prepare() checks nothing
FailCode(kind) == IF kind = "lstream" THEN StreamErr ELSE IF kind \in {"fdfull", "fdpart"} THEN IOErr ELSE WriteLimit
CheckedWriters == {"pedantic", "constexpr"}

\* the code a reader reports when its data runs out
ExhaustCode(kind) == IF kind \in StreamKinds THEN StreamErr ELSE IF kind = "fdbad" THEN IOErr ELSE ReadLimit

NewReader(kind, src, bounded, lim, fk, fe) ==
  [kind |-> kind, src |-> src, pos |-> 0, b |-> bounded, lim |-> lim, idx |-> 0,
   fk |-> fk, fe |-> fe, nc |-> 0, dead |-> FALSE]

Remaining(r) == IF r.kind = "fdbad" THEN 0 ELSE Len(r.src) - r.pos

(* One call on the wrapped (library or harness-faulted) reader.            *)
(* Result [r |-> state, st |-> status, out |-> bytes delivered].            *)
InnerR(r, op, n) ==
  LET r1 == [r EXCEPT !.nc = @ + 1] IN
  IF r.fk # 0 /\ r1.nc = r.fk THEN [r |-> [r1 EXCEPT !.dead = TRUE], st |-> r.fe, out |-> <<>>]
  ELSE IF op = "ensure"
  THEN IF r.kind \in BoundedKinds /\ ~FitsIn(n, Remaining(r))
       THEN [r |-> r1, st |-> ReadLimit, out |-> <<>>]
       ELSE [r |-> r1, st |-> OK, out |-> <<>>]
  ELSE \* r1 (n = 1), rn, skip
       IF FitsIn(n, Remaining(r))
       THEN [r |-> [r1 EXCEPT !.pos = @ + n], st |-> OK,
             out |-> IF op = "skip" THEN <<>> ELSE SubSeq(r.src, r.pos + 1, r.pos + n)]
       ELSE [r |-> [r1 EXCEPT !.dead = TRUE], st |-> ExhaustCode(r.kind), out |-> <<>>]

(* One call on the reader as the user sees it (bounded or not).  `inner`    *)
(* tells whether the wrapped object was called at all.                      *)
RStep(r, op, n) ==
  IF ~r.b THEN LET x == InnerR(r, op, n) IN [r |-> x.r, st |-> x.st, out |-> x.out, inner |-> TRUE]
  ELSE LET budget == r.lim - r.idx IN
    IF op = "pad"
    THEN LET x == InnerR(r, "skip", budget) IN
         [r |-> IF x.st = OK THEN [x.r EXCEPT !.idx = r.lim] ELSE x.r, st |-> x.st, out |-> <<>>, inner |-> TRUE]
    ELSE IF ~FitsIn(n, budget)
    THEN [r |-> r, st |-> ReadLimit, out |-> <<>>, inner |-> FALSE]          \* refused: wrapped reader untouched
    ELSE LET x == InnerR(r, op, n) IN
         [r |-> IF x.st = OK /\ op # "ensure" THEN [x.r EXCEPT !.idx = @ + n] ELSE x.r,
          st |-> x.st, out |-> x.out, inner |-> TRUE]

\* ---- writers ----------------------------------------------------------------
NewWriter(kind, cap, bounded, lim, fk, fe) ==
  [kind |-> kind, cap |-> cap, out |-> <<>>, b |-> bounded, lim |-> lim, idx |-> 0,
   fk |-> fk, fe |-> fe, nc |-> 0, dead |-> FALSE, ub |-> FALSE]

Room(w) == IF w.kind \in {"sstream", "fd"} THEN Inf ELSE IF w.kind = "fdfull" THEN 0 ELSE w.cap - Len(w.out)

\* bs: the bytes to write (for "skipw": n copies of the padding value)
InnerW(w, op, n, bs) ==
  LET w1 == [w EXCEPT !.nc = @ + 1] IN
  IF w.fk # 0 /\ w1.nc = w.fk THEN [w |-> [w1 EXCEPT !.dead = TRUE], st |-> w.fe]
  ELSE IF op = "prepare"
  THEN IF w.kind \in Unprepared \/ FitsIn(n, Room(w)) THEN [w |-> w1, st |-> OK]
       ELSE [w |-> w1, st |-> WriteLimit]
  ELSE \* w1, wn, skipw
       IF FitsIn(n, Room(w)) THEN [w |-> [w1 EXCEPT !.out = @ \o bs], st |-> OK]
       ELSE IF w.kind = "buffer" /\ op # "skipw"
       \* BufferWriter::Write is documented as unchecked: the caller is obliged to Prepare
       THEN [w |-> [w1 EXCEPT !.ub = TRUE], st |-> OK]
       ELSE IF w.kind = "buffer" THEN [w |-> [w1 EXCEPT !.ub = TRUE], st |-> OK]
       ELSE [w |-> [w1 EXCEPT !.dead = TRUE], st |-> FailCode(w.kind)]

WStep(w, op, n, bs) ==
  IF ~w.b THEN LET x == InnerW(w, op, n, bs) IN [w |-> x.w, st |-> x.st, inner |-> TRUE]
  ELSE LET budget == w.lim - w.idx IN
    IF op = "padw"
    THEN LET x == InnerW(w, "skipw", budget, bs) IN
         [w |-> IF x.st = OK THEN [x.w EXCEPT !.idx = w.lim] ELSE x.w, st |-> x.st, inner |-> TRUE]
    ELSE IF ~FitsIn(n, budget)
    THEN [w |-> w, st |-> WriteLimit, inner |-> FALSE]
    ELSE LET x == InnerW(w, op, n, bs) IN
         [w |-> IF x.st = OK /\ op # "prepare" THEN [x.w EXCEPT !.idx = @ + n] ELSE x.w, st |-> x.st, inner |-> TRUE]
\* ---- accessors ---------------------------------------------------------------
\* what capacity() / remaining() / empty() report (size() is idx resp. Len(out), checked with the calls):
\* BoundedReader: capacity = the limit, empty = the limit is used up; buffer readers: capacity = source length,
\* remaining = bytes not yet consumed, empty = none left; writers: capacity = limit resp. buffer size
RAccessors(r) ==
  IF r.b THEN [cap |-> r.lim, emp |-> (r.idx = r.lim)]
  ELSE [cap |-> Len(r.src), rem |-> Remaining(r), emp |-> (Remaining(r) = 0)]
WAccessors(w) == IF w.b THEN [cap |-> w.lim] ELSE [cap |-> w.cap]
\* a logged accessor record agrees with the model on every accessor the class has
AccessorsAgree(logged, model) == \A f \in DOMAIN logged : f \in DOMAIN model => logged[f] = model[f]
=============================================================================
