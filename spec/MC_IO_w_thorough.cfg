SPECIFICATION Spec
CONSTANTS Side = "w" MaxLen = 4 MaxLim = 5 MaxSteps = 4
INVARIANTS Confine Transparent OneContract EnsureExact
PROPERTY RefusalUntouched
CHECK_DEADLOCK FALSE
