----------------------------- MODULE MC_Confine -----------------------------
(***************************************************************************)
(* TLC on Confine.tla with a 4-bit std::size_t (M = 16): every limit,      *)
(* every index, every request size, every call sequence with up to         *)
(* MaxCalls forwarded calls.  Besides the invariants of Confine.tla it     *)
(* checks the step refinement                                              *)
(*      Confine step  ==>  IO!RStep and IO!WStep take the same step         *)
(* on the abstract bounded reader / writer built from the pre-state, where *)
(* request sizes in the upper half of the word are IO.tla's sizes "near    *)
(* 2^64" (negative numbers).  TrIO.tla validates the recorded traces of    *)
(* the real BoundedReader / BoundedWriter against RStep / WStep, so the    *)
(* three descriptions - machine arithmetic, abstract automaton, code -     *)
(* are tied pairwise.                                                      *)
(***************************************************************************)
EXTENDS Confine, Sequences, TLC

CONSTANT MaxCalls

IO == INSTANCE IO

MCCandidates == 0..(M - 1)
Bound == ncalls <= MaxCalls /\ ~dead          \* states are checked, then not extended

Half == M \div 2
\* a request size as IO.tla writes it: the upper half of the word is "2^64 - d" = -d
IOn(n) == IF n >= Half THEN n - M ELSE n
Src == [i \in 1..M |-> 16 + i]
Zeros(n) == [i \in 1..n |-> 0]

ROp == [ensure |-> "ensure", one |-> "r1", block |-> "rn", skip |-> "skip", pad |-> "pad"]
WOp == [ensure |-> "prepare", one |-> "w1", block |-> "wn", skip |-> "skipw", pad |-> "padw"]

\* the abstract objects before the last call; the wrapped object fails at this call iff the step says so
AbsR == [kind |-> "sstream", src |-> Src, pos |-> pinner, b |-> TRUE, lim |-> size, idx |-> pindex,
         fk |-> IF verdict = "innerfail" THEN 1 ELSE 0, fe |-> 16, nc |-> 0, dead |-> FALSE]
AbsW == [kind |-> "sstream", cap |-> 0, out |-> Zeros(pinner), b |-> TRUE, lim |-> size, idx |-> pindex,
         fk |-> IF verdict = "innerfail" THEN 1 ELSE 0, fe |-> 16, nc |-> 0, dead |-> FALSE, ub |-> FALSE]

SameStep(x, obj, limitCode, consumed) ==
  /\ x.inner = (verdict # "refused")
  /\ (verdict = "refused" => x.st = limitCode /\ obj = (IF limitCode = IO!ReadLimit THEN AbsR ELSE AbsW))
  /\ (verdict = "ok" => x.st = IO!OK /\ obj.idx = index /\ consumed = inner /\ obj.nc = 1 /\ ~obj.dead)
  /\ (verdict = "innerfail" => x.st = 16 /\ obj.idx = pindex /\ obj.dead)

\* limits in the lower half of the word are the limits IO.tla talks about
Refines ==
  (verdict # "init" /\ size < Half) =>
    LET n == IF op = "one" THEN 1 ELSE IOn(arg)
        xr == IO!RStep(AbsR, ROp[op], n)
        xw == IO!WStep(AbsW, WOp[op], n, Zeros(IF op = "pad" THEN size - pindex ELSE IF n >= 0 THEN n ELSE 0)) IN
    /\ SameStep(xr, xr.r, IO!ReadLimit, xr.r.pos)
    /\ SameStep(xw, xw.w, IO!WriteLimit, Len(xw.w.out))
=============================================================================
