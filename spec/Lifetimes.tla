------------------------------ MODULE Lifetimes ------------------------------
(***************************************************************************)
(* Life cycle of Variant, Optional / Entry, Result and UniqueHandle        *)
(* objects (C12, C13, C15b) over the public operations of their APIs.      *)
(*                                                                         *)
(* K object slots; a slot is "none" (no object) or an abstract value:      *)
(*   Variant      [i |-> -1 | 0 | 1 | 2, v |-> value]  (0 = A, 1 = int,     *)
(*                                      2 = B; C converts to A)            *)
(*   Optional     [e |-> TRUE] | [e |-> FALSE, v |-> value]                 *)
(*   Result       [s |-> "empty"] | [s |-> "err", c |-> code] |             *)
(*                [s |-> "val", v |-> value]                                *)
(*   UniqueHandle [r |-> resource | -1]                                     *)
(*                                                                         *)
(* For each machine  XPost(pre, op, post)  is the relation "post is an     *)
(* admissible state of the slots after op".  It is a relation, not a       *)
(* function, exactly where the properties leave the outcome open: the      *)
(* contents of a moved-from element, the source of a move *construction*,  *)
(* and the target of an operation whose element constructor threw.         *)
(* XNext(pre, op) is the canonical post state (used for model checking and *)
(* behaviour generation); XPost(pre, op, XNext(pre, op)) holds.            *)
(***************************************************************************)
EXTENDS Naturals, Integers, Sequences, FiniteSets

K == 3
None == [none |-> TRUE]    \* a record, so that it is comparable with the other slot values
Slots == 1..K
Same(pre, post, except) == \A s \in Slots \ except : post[s] = pre[s]
Def(op, f, d) == IF f \in DOMAIN op THEN op[f] ELSE d

\* ---- Variant ----------------------------------------------------------------
VEmpty == [i |-> -1, v |-> 0]
VMovedFromOK(pre, post) == post # None /\ (post.i = -1 \/ post.i = pre.i)    \* element contents unspecified
VNextSlot(pre, op) ==      \* the new value of slot op.o + 1 for an operation that did not throw
  LET o == op.o + 1
      p == Def(op, "p", 0) + 1 IN
  \* (the *_sub_* operations construct / assign from a Variant over other types - here <B, A> - holding an A, a B or
  \* nothing: "each element of OtherTypes must be convertible to an element of Types")
  CASE op.op \in {"new_empty", "new_ev", "assign_ev", "new_sub_empty", "assign_sub_empty"} -> VEmpty
    \* (C and T are not alternatives but convert to A; T is a plain nothrow-copyable value)
    [] op.op \in {"new_a", "assign_a", "new_c", "assign_c", "new_t", "assign_t", "new_sub_a", "assign_sub_a"} -> [i |-> 0, v |-> op.val]
    [] op.op = "assign_own" -> pre[o]       \* assignment from the object's own active element: nothing changes
    [] op.op \in {"new_i", "assign_i"} -> [i |-> 1, v |-> op.val]
    [] op.op \in {"new_b", "assign_b", "new_sub_b", "assign_sub_b"} -> [i |-> 2, v |-> op.val]
    \* IfAnyOf<A>::Swap / Take act on the value only when an A is active; the alternative never changes
    [] op.op = "swap_a" -> IF pre[o].i = 0 THEN [i |-> 0, v |-> op.val] ELSE pre[o]
    [] op.op = "take_a" -> pre[o]
    [] op.op \in {"new_copy", "new_move", "assign_copy", "assign_move"} -> pre[p]
    [] op.op = "become" -> IF op.idx = pre[o].i THEN pre[o]
                           ELSE IF op.idx \in {0, 1, 2} THEN [i |-> op.idx, v |-> 0] ELSE VEmpty
    [] op.op = "visit" -> pre[o]
    [] op.op = "destroy" -> None

VPre(pre, op) ==           \* is the operation applicable (the generator may emit inapplicable ones: ignored)
  LET o == op.o + 1
      p == Def(op, "p", 0) + 1 IN
  /\ (op.op \in {"new_empty", "new_ev", "new_a", "new_b", "new_c", "new_t", "new_i", "new_copy", "new_move",
                  "new_sub_a", "new_sub_b", "new_sub_empty"}) <=> pre[o] = None
  /\ (op.op \in {"new_copy", "new_move", "assign_copy", "assign_move"}) => pre[p] # None

IsMove(op) == op.op \in {"new_move", "assign_move"}
VPost(pre, op, post, threw) ==
  LET o == op.o + 1
      p == Def(op, "p", 0) + 1 IN
  IF threw
  THEN \* an element constructor threw: the object under construction does not exist; an existing
       \* target is empty or untouched; a move source is a valid moved-from object; the rest is untouched
       /\ Same(pre, post, {o} \cup (IF IsMove(op) THEN {p} ELSE {}))
       /\ IF pre[o] = None THEN post[o] = None ELSE (post[o] = VEmpty \/ post[o] = pre[o])
       /\ (IsMove(op) /\ p # o) => VMovedFromOK(pre[p], post[p])
  ELSE IF IsMove(op) /\ p # o
  THEN /\ Same(pre, post, {o, p})
       /\ post[o] = pre[p]
       /\ VMovedFromOK(pre[p], post[p])
  ELSE IF IsMove(op)     \* self move-assignment: still a valid object of the same alternative
  THEN Same(pre, post, {o}) /\ VMovedFromOK(pre[o], post[o])
  ELSE IF op.op = "take_a"   \* the value of an active A is moved out: still an A, contents unspecified
  THEN Same(pre, post, {o}) /\ post[o] # None /\ post[o].i = pre[o].i /\ (pre[o].i # 0 => post[o] = pre[o])
  ELSE post = [pre EXCEPT ![o] = VNextSlot(pre, op)]

VNext(pre, op) ==
  LET o == op.o + 1
      p == Def(op, "p", 0) + 1 IN
  [[pre EXCEPT ![o] = VNextSlot(pre, op)] EXCEPT ![p] = IF IsMove(op) /\ p # o THEN pre[p] ELSE @]

\* what the ledger of live elements must show: one live element per non-empty variant, of the type its index names
VAlive(objs) == <<Cardinality({s \in Slots : objs[s] # None /\ objs[s].i = 0}),
                  Cardinality({s \in Slots : objs[s] # None /\ objs[s].i = 2}), 0>>

\* ---- Optional / Entry ---------------------------------------------------------
OEmpty == [e |-> TRUE]
OVal(x) == [e |-> FALSE, v |-> x]
ONextSlot(pre, op) ==
  LET o == op.o + 1
      p == Def(op, "p", 0) + 1 IN
  CASE op.op \in {"new_empty", "clear"} -> OEmpty
    [] op.op \in {"new_val", "new_rval", "assign_val", "assign_rval"} -> OVal(op.val)
    [] op.op \in {"new_copy", "new_move", "assign_copy", "assign_move"} -> pre[p]
    [] op.op \in {"take", "assign_own"} -> pre[o]
    [] op.op = "destroy" -> None
    \* assignment from an Optional of a different element type: the value is converted, an empty source empties
    [] op.op \in {"assign_conv_move", "assign_conv_copy"} -> IF op.srcempty THEN OEmpty ELSE OVal(op.val)
OPre(pre, op) ==
  LET o == op.o + 1
      p == Def(op, "p", 0) + 1 IN
  /\ (op.op \in {"new_empty", "new_val", "new_rval", "new_copy", "new_move"}) <=> pre[o] = None
  /\ (op.op \in {"new_copy", "new_move", "assign_copy", "assign_move"}) => pre[p] # None
  /\ op.op \in {"take", "assign_own"} => ~pre[o].e
\* an object whose value was moved out still is "empty or holds exactly one alive value"
OAnyValid(pre, post) == post # None /\ (post.e \/ ~pre.e)
OPost(pre, op, post, threw) ==
  LET o == op.o + 1
      p == Def(op, "p", 0) + 1 IN
  IF threw
  THEN /\ Same(pre, post, {o} \cup (IF IsMove(op) THEN {p} ELSE {}))
       /\ IF pre[o] = None THEN post[o] = None ELSE (post[o] = OEmpty \/ post[o] = pre[o])
       /\ (IsMove(op) /\ p # o) => OAnyValid(pre[p], post[p])
  ELSE IF op.op = "assign_move" /\ p # o
  THEN post = [[pre EXCEPT ![o] = pre[p]] EXCEPT ![p] = OEmpty]          \* moving from an object by assignment leaves it empty
  ELSE IF op.op = "assign_move" THEN post = pre                           \* self move-assignment
  ELSE IF op.op = "new_move"
  THEN Same(pre, post, {o, p}) /\ post[o] = pre[p] /\ OAnyValid(pre[p], post[p])
  ELSE IF op.op = "take"
  THEN Same(pre, post, {o}) /\ OAnyValid(pre[o], post[o])
  ELSE post = [pre EXCEPT ![o] = ONextSlot(pre, op)]
ONext(pre, op) ==
  LET o == op.o + 1
      p == Def(op, "p", 0) + 1 IN
  [[pre EXCEPT ![o] = ONextSlot(pre, op)] EXCEPT ![p] = IF op.op = "assign_move" /\ p # o THEN OEmpty ELSE @]
OAlive(objs) == <<Cardinality({s \in Slots : objs[s] # None /\ ~objs[s].e}), 0, 0>>

\* ---- Result -------------------------------------------------------------------
REmpty == [s |-> "empty"]
RNextSlot(pre, op) ==
  LET o == op.o + 1
      p == Def(op, "p", 0) + 1 IN
  CASE op.op \in {"new_empty", "clear"} -> REmpty
    [] op.op \in {"new_val", "new_rval", "assign_val", "assign_rval"} -> [s |-> "val", v |-> op.val]
    [] op.op \in {"new_err", "assign_err"} -> IF op.val = 0 THEN REmpty ELSE [s |-> "err", c |-> op.val]   \* None is not an error
    [] op.op \in {"new_copy", "new_move", "assign_copy", "assign_move"} -> pre[p]
    [] op.op \in {"take", "assign_own"} -> pre[o]
    [] op.op = "destroy" -> None
RPre(pre, op) ==
  LET o == op.o + 1
      p == Def(op, "p", 0) + 1 IN
  /\ (op.op \in {"new_empty", "new_val", "new_rval", "new_err", "new_copy", "new_move"}) <=> pre[o] = None
  /\ (op.op \in {"new_copy", "new_move", "assign_copy", "assign_move"}) => pre[p] # None
  /\ op.op \in {"take", "assign_own"} => pre[o].s = "val"
RAnyValid(pre, post) == post # None /\ (post.s # "val" \/ pre.s = "val") /\ (post.s = "err" => (pre.s = "err" /\ post.c = pre.c))
RPost(pre, op, post, threw) ==
  LET o == op.o + 1
      p == Def(op, "p", 0) + 1 IN
  IF threw
  THEN /\ Same(pre, post, {o} \cup (IF IsMove(op) THEN {p} ELSE {}))
       /\ IF pre[o] = None THEN post[o] = None ELSE (post[o] = REmpty \/ post[o] = pre[o])
       /\ (IsMove(op) /\ p # o) => RAnyValid(pre[p], post[p])
  ELSE IF op.op = "assign_move" /\ p # o
  THEN post = [[pre EXCEPT ![o] = pre[p]] EXCEPT ![p] = REmpty]
  ELSE IF op.op = "assign_move" THEN post = pre
  ELSE IF op.op = "new_move"
  THEN Same(pre, post, {o, p}) /\ post[o] = pre[p] /\ RAnyValid(pre[p], post[p])
  ELSE IF op.op = "take"
  THEN Same(pre, post, {o}) /\ RAnyValid(pre[o], post[o])
  ELSE post = [pre EXCEPT ![o] = RNextSlot(pre, op)]
RNext(pre, op) ==
  LET o == op.o + 1
      p == Def(op, "p", 0) + 1 IN
  [[pre EXCEPT ![o] = RNextSlot(pre, op)] EXCEPT ![p] = IF IsMove(op) /\ p # o THEN REmpty ELSE @]
RAlive(objs) == <<Cardinality({s \in Slots : objs[s] # None /\ objs[s].s = "val"}), 0, 0>>

\* ---- UniqueHandle --------------------------------------------------------------
\* state: [slots |-> function, closed |-> resource -> count, released |-> resource -> count]
NRes == 8
HInit == [slots |-> [s \in Slots |-> None], closed |-> [r \in 0..(NRes - 1) |-> 0], released |-> [r \in 0..(NRes - 1) |-> 0]]
HOwned(st) == {st.slots[s].r : s \in {t \in Slots : st.slots[t] # None}} \ {-1}
HPre(st, op) ==
  LET o == op.o + 1
      p == Def(op, "p", 0) + 1 IN
  /\ (op.op \in {"new_empty", "new_res", "new_move"}) <=> st.slots[o] = None
  /\ (op.op \in {"new_move", "assign_move"}) => st.slots[p] # None
  /\ op.op = "new_res" => (op.r \in 0..(NRes - 1) /\ op.r \notin HOwned(st) /\ st.closed[op.r] = 0 /\ st.released[op.r] = 0)
CloseOf(st, s) == IF st.slots[s] # None /\ st.slots[s].r >= 0
                  THEN [st.closed EXCEPT ![st.slots[s].r] = @ + 1] ELSE st.closed
HNext(st, op) ==
  LET o == op.o + 1
      p == Def(op, "p", 0) + 1 IN
  CASE op.op = "new_empty" -> [st EXCEPT !.slots[o] = [r |-> -1]]
    [] op.op = "new_res" -> [st EXCEPT !.slots[o] = [r |-> op.r]]
    [] op.op = "new_move" -> [st EXCEPT !.slots[o] = st.slots[p], !.slots[p] = [r |-> -1]]
    [] op.op = "assign_move" ->
         IF o = p THEN st                                   \* self move-assignment closes nothing
         ELSE [st EXCEPT !.closed = CloseOf(st, o), !.slots[o] = st.slots[p], !.slots[p] = [r |-> -1]]
    [] op.op = "release" ->
         [st EXCEPT !.slots[o] = [r |-> -1],
                    !.released = IF st.slots[o].r >= 0 THEN [@ EXCEPT ![st.slots[o].r] = @ + 1] ELSE @]
    [] op.op = "close" -> [st EXCEPT !.closed = CloseOf(st, o), !.slots[o] = [r |-> -1]]
    [] op.op = "destroy" -> [st EXCEPT !.closed = CloseOf(st, o), !.slots[o] = None]
\* design-level invariant: a resource is closed at most once, never while or after being released, never while owned
HClosedOnce(st) ==
  \A r \in 0..(NRes - 1) :
    /\ st.closed[r] <= 1
    /\ st.closed[r] + st.released[r] <= 1
    /\ (r \in HOwned(st)) => (st.closed[r] = 0 /\ st.released[r] = 0)
\* no two handles own the same resource
HUnique(st) == \A s, t \in Slots : (s # t /\ st.slots[s] # None /\ st.slots[t] # None /\ st.slots[s].r >= 0) => st.slots[s].r # st.slots[t].r

\* ---- Optional comparison: empty is less than every value, otherwise the values decide
\* operand: -1 = empty, otherwise the value
OptCmp(a, b) == <<a = b, a # b, a < b, a > b, a <= b, a >= b>>
=============================================================================
