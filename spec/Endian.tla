------------------------------- MODULE Endian -------------------------------
(***************************************************************************)
(* Byte-order conversions as permutations of an object's bytes (C20).      *)
(* A value is the sequence of its object bytes in memory order.  On a      *)
(* little-endian host the little-endian conversions are the identity and   *)
(* the big-endian conversions reverse the bytes; conversely on a           *)
(* big-endian host.  Floating-point values are their bit patterns.         *)
(***************************************************************************)
EXTENDS Naturals, Sequences

Ops == {"FromLittle", "ToLittle", "FromBig", "ToBig"}
Reverse(w) == [i \in 1..Len(w) |-> w[Len(w) + 1 - i]]
IsLittleOp(op) == op \in {"FromLittle", "ToLittle"}
Conv(op, hostLE, w) == IF IsLittleOp(op) = hostLE THEN w ELSE Reverse(w)
\* out[i] = in[ByteMap[i]]
ByteMap(op, hostLE, n) == IF IsLittleOp(op) = hostLE THEN [i \in 1..n |-> i] ELSE [i \in 1..n |-> n + 1 - i]
Inverse(op) == CASE op = "FromLittle" -> "ToLittle" [] op = "ToLittle" -> "FromLittle"
                 [] op = "FromBig" -> "ToBig" [] op = "ToBig" -> "FromBig"
=============================================================================
