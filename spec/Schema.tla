------------------------------- MODULE Schema -------------------------------
(***************************************************************************)
(* Type-level schemas and bounded value generators used when TLC checks    *)
(* the specification on its own (the theorems of the format) and when TLC  *)
(* emits stimuli.  Schemas are the records of pool/types.json.             *)
(***************************************************************************)
EXTENDS Bytes, SequencesExt

\* ---- schema constructors ---------------------------------------------------
TBool == [k |-> "bool"]
TChar == [k |-> "char"]
TInt(w, s) == [k |-> "int", w |-> w, s |-> s]
TEnum(w, s) == [k |-> "enum", w |-> w, s |-> s]
TFlt(w) == [k |-> "flt", w |-> w]
TStr(cw) == [k |-> "str", cw |-> cw]
TVec(e) == [k |-> "vec", e |-> e]
TArr(e, n) == [k |-> "arr", e |-> e, n |-> n]
TLbuf(e, n, sw, ss) == [k |-> "lbuf", e |-> e, n |-> n, unb |-> FALSE, sw |-> sw, ss |-> ss, ak |-> "c"]
TPair(a, b) == [k |-> "pair", m |-> <<a, b>>]
TTup(m) == [k |-> "tup", m |-> m]
TStruct(m) == [k |-> "struct", m |-> m]
TMap(a, b) == [k |-> "map", key |-> a, val |-> b]
TOpt(e) == [k |-> "opt", e |-> e]
TRes(err, e) == [k |-> "res", err |-> err, e |-> e]
TVar(m) == [k |-> "var", m |-> m]
THnd == [k |-> "hnd", tt |-> TInt(8, FALSE), tv |-> <<0, 0, 0, 0, 0, 0, 0, 0>>, ev |-> <<255, 255, 255, 255, 255, 255, 255, 255>>]
TWrap(e) == [k |-> "wrap", e |-> e]
TEntry(id, act, e) == [id |-> id, act |-> act, e |-> e]
TTable(hash, ents) == [k |-> "table", hash |-> hash, ents |-> ents]

\* ---- boundary words: every class edge of every lane -------------------------
EdgeBytes == {0, 1, 63, 64, 127, 128, 191, 192, 255}
BoundaryWords(w) ==
  {[i \in 1..w |-> IF i < j THEN lo ELSE IF i = j THEN b ELSE hi] :
      j \in 1..w, b \in EdgeBytes, lo \in {0, 255}, hi \in {0, 255}}

\* a few words only (used inside containers)
FewWords(w) == {[i \in 1..w |-> IF i = 1 THEN b ELSE h] : b \in {0, 127, 128}, h \in {0, 255}}

\* ---- value generators as *sequences* (values of different shapes cannot share a TLC set)
\* all Append(p, x) for p in ps, x in xs
Cross(ps, xs) == [i \in 1..(Len(ps) * Len(xs)) |-> Append(ps[((i - 1) \div Len(xs)) + 1], xs[((i - 1) % Len(xs)) + 1])]
RECURSIVE Tuples(_, _), ProdSeq(_, _)
\* all k-tuples over xs
Tuples(xs, k) == IF k = 0 THEN <<<<>>>> ELSE Cross(Tuples(xs, k - 1), xs)
\* all tuples t with t[i] drawn from vss[i], i <= n
ProdSeq(vss, n) == IF n = 0 THEN <<<<>>>> ELSE Cross(ProdSeq(vss, n - 1), vss[n])
RECURSIVE TuplesUpTo(_, _)
TuplesUpTo(xs, k) == IF k = 0 THEN <<<<>>>> ELSE TuplesUpTo(xs, k - 1) \o Tuples(xs, k)
MapSeq(xs, F(_)) == [i \in 1..Len(xs) |-> F(xs[i])]
FirstN(xs, n) == SubSeq(xs, 1, Min(n, Len(xs)))

RECURSIVE SmallVals(_, _)
\* d = 0: rich value sets; d > 0 (inside a container): few values
SmallVals(S, d) ==
  CASE S.k = "bool" -> <<<<0>>, <<1>>>>
    [] S.k = "char" -> IF d = 0 THEN SetToSeq({<<b>> : b \in EdgeBytes}) ELSE <<<<65>>, <<200>>>>
    [] S.k \in {"int", "enum"} -> SetToSeq(IF d = 0 THEN BoundaryWords(S.w) ELSE IF d = 1 THEN FewWords(S.w)
                                            ELSE {[i \in 1..S.w |-> IF i = 1 THEN 128 ELSE 0], [i \in 1..S.w |-> 1]})
    [] S.k = "flt" -> <<[i \in 1..S.w |-> 0], [i \in 1..S.w |-> IF i = S.w THEN 127 ELSE i], [i \in 1..S.w |-> 255]>>
    [] S.k = "str" -> MapSeq(<<<<>>, [i \in 1..S.cw |-> 65], [i \in 1..(2 * S.cw) |-> 190 + i]>>, LAMBDA bs : [cw |-> S.cw, b |-> bs])
    [] S.k = "vec" -> MapSeq(TuplesUpTo(FirstN(SmallVals(S.e, d + 1), 3), IF d = 0 THEN 2 ELSE 1), LAMBDA t : [n |-> t])
    [] S.k \in {"arr", "carr"} -> MapSeq(Tuples(FirstN(SmallVals(S.e, d + 1), 3), S.n), LAMBDA t : [n |-> t])
    [] S.k = "lbuf" -> MapSeq(TuplesUpTo(FirstN(SmallVals(S.e, d + 1), 3), Min(S.n, 2)), LAMBDA t : [n |-> t, c |-> WordOfNat(Len(t), S.sw)])
    [] S.k \in {"pair", "tup", "struct"} ->
         MapSeq(ProdSeq([i \in 1..Len(S.m) |-> FirstN(SmallVals(S.m[i], d + 1), 4)], Len(S.m)), LAMBDA t : [m |-> t])
    [] S.k \in {"map", "umap"} ->
         LET ks == FirstN(SmallVals(S.key, d + 1), 3)
             vs == FirstN(SmallVals(S.val, d + 1), 2)
             pairs == Cross(MapSeq(ks, LAMBDA x : <<x>>), vs)
             two == SelectSeq(Cross(MapSeq(pairs, LAMBDA x : <<x>>), pairs), LAMBDA t : t[1][1] # t[2][1]) IN
         MapSeq(<<<<>>>> \o MapSeq(pairs, LAMBDA x : <<x>>) \o two, LAMBDA t : [kv |-> t])
    [] S.k \in {"ref", "wrap"} -> SmallVals(S.e, d)
    [] S.k = "opt" -> <<[o |-> <<>>]>> \o MapSeq(SmallVals(S.e, d + 1), LAMBDA x : [o |-> <<x>>])
    [] S.k = "res" -> <<[r |-> "none", e |-> [i \in 1..S.err.w |-> 0]]>>
                      \o MapSeq(SetToSeq({x \in FewWords(S.err.w) : ~AllZeroFrom(x, 1)}), LAMBDA w : [r |-> "err", e |-> w])
                      \o MapSeq(SmallVals(S.e, d + 1), LAMBDA x : [r |-> "val", v |-> x])
    [] S.k = "emptyvar" -> <<[ev |-> TRUE]>>
    [] S.k = "var" ->
         LET Alt[j \in 0..Len(S.m)] ==
               IF j = 0 THEN <<[i |-> <<255, 255, 255, 255>>]>>
               ELSE Alt[j - 1] \o MapSeq(FirstN(SmallVals(S.m[j], d + 1), 4), LAMBDA x : [i |-> WordOfNat(j - 1, 4), v |-> x]) IN
         Alt[Len(S.m)]
    [] S.k = "hnd" -> <<[h |-> S.ev], [h |-> <<5, 0, 0, 0, 0, 0, 0, 0>>]>>
    [] S.k = "table" ->
         LET Ent(i) == IF S.ents[i].act
                       THEN <<[id |-> S.ents[i].id, p |-> FALSE]>>
                            \o MapSeq(FirstN(SmallVals(S.ents[i].e, d + 1), 3), LAMBDA x : [id |-> S.ents[i].id, p |-> TRUE, v |-> x])
                       ELSE <<[id |-> S.ents[i].id, p |-> FALSE]>> IN
         MapSeq(ProdSeq([i \in 1..Len(S.ents) |-> Ent(i)], Len(S.ents)), LAMBDA t : [t |-> t])
=============================================================================
