SPECIFICATION Spec
CONSTANTS Side = "r" MaxLen = 4 MaxLim = 5 MaxSteps = 4
INVARIANTS Confine Transparent OneContract EnsureExact
PROPERTY RefusalUntouched
CHECK_DEADLOCK FALSE
