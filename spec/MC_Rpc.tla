------------------------------- MODULE MC_Rpc -------------------------------
(***************************************************************************)
(* Design-level model of an RPC connection (C14): a request pipe and a     *)
(* reply pipe of frames, a set of bound methods, calls that may target     *)
(* unbound selectors or carry undecodable arguments.  Explores all call    *)
(* sequences up to MaxCalls.                                               *)
(***************************************************************************)
EXTENDS Naturals, Sequences, FiniteSets, TLC

CONSTANTS Methods, Bound, MaxCalls
ASSUME Bound \subseteq Methods

VARIABLES req,     \* request pipe: sequence of frames [m, arg, good]
          rep,     \* reply pipe: sequence of frames [m, ret]
          hlog,    \* handler invocations [m, arg]
          results, \* what Invoke returned to the caller: [m, arg, st, ret]
          ncalls, pc
vars == <<req, rep, hlog, results, ncalls, pc>>

Init == req = <<>> /\ rep = <<>> /\ hlog = <<>> /\ results = <<>> /\ ncalls = 0 /\ pc = "idle"

\* the caller writes one request frame (selector + arguments)
Send == /\ pc = "idle" /\ ncalls < MaxCalls
        /\ \E m \in Methods, a \in {1, 2}, good \in BOOLEAN :
             req' = Append(req, [m |-> m, arg |-> a, good |-> good])
        /\ ncalls' = ncalls + 1 /\ pc' = "sent"
        /\ UNCHANGED <<rep, hlog, results>>
\* the dispatcher consumes exactly one request frame
DispatchOne ==
  /\ pc = "sent" /\ req # <<>>
  /\ LET f == Head(req) IN
     /\ req' = Tail(req)
     /\ IF f.m \in Bound /\ f.good
        THEN /\ hlog' = Append(hlog, [m |-> f.m, arg |-> f.arg])
             /\ rep' = Append(rep, [m |-> f.m, ret |-> f.arg + 10])
             /\ pc' = "replied"
        ELSE /\ UNCHANGED <<hlog, rep>>       \* unbound selector or undecodable arguments: no handler, no reply
             /\ pc' = "failed"
  /\ UNCHANGED <<results, ncalls>>
\* the caller reads the reply (or observes that there is none)
Receive ==
  /\ pc \in {"replied", "failed"}
  /\ IF pc = "replied"
     THEN /\ results' = Append(results, [st |-> "ok", ret |-> Head(rep).ret])
          /\ rep' = Tail(rep)
     ELSE /\ results' = Append(results, [st |-> "error", ret |-> 0]) /\ UNCHANGED rep
  /\ pc' = "idle"
  /\ UNCHANGED <<req, hlog, ncalls>>
Next == Send \/ DispatchOne \/ Receive
Spec == Init /\ [][Next]_vars

\* successive calls stay in frame: between calls both pipes are empty
InFrame == pc = "idle" => (req = <<>> /\ rep = <<>>)
\* exactly one handler per successful call, none otherwise
OneHandlerPerSuccess ==
  pc = "idle" => Len(hlog) = Cardinality({i \in 1..Len(results) : results[i].st = "ok"})
\* the value Invoke returns is the handler's return value for the arguments that were sent
ReturnIsHandlers ==
  pc = "idle" =>
    LET oks == SelectSeq(results, LAMBDA r : r.st = "ok") IN
    \A i \in 1..Len(oks) : oks[i].ret = hlog[i].arg + 10
OnlyBoundRun == \A i \in 1..Len(hlog) : hlog[i].m \in Bound
=============================================================================
