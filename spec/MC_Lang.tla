------------------------------- MODULE MC_Lang -------------------------------
(***************************************************************************)
(* W5: on every byte string (built byte by byte over a 12-letter alphabet  *)
(* of prefix bytes and small values, up to MaxLen) and every schema of a   *)
(* small pool, the operational decoder Dec (Wire.tla) succeeds with        *)
(* consumed length n iff the first n bytes are, declaratively, a           *)
(* well-formed encoding (Lang.tla); hence well-formed encodings are        *)
(* prefix-free and the decoder accepts exactly the documented language.    *)
(***************************************************************************)
EXTENDS Wire, Lang, Schema

CONSTANT MaxLen
Alphabet == {0, 1, 2, 127, 128, 129, 132, 185, 186, 188, 189, 190}
U8 == TInt(1, FALSE)   U16 == TInt(2, FALSE)   I16 == TInt(2, TRUE)
W0 == <<0, 0, 0, 0, 0, 0, 0, 0>>
Pool == <<
  TBool, U8, I16, TStr(1), TStr(2), TVec(U8), TVec(U16), TVec(TStr(1)), TArr(U8, 2), TArr(TOpt(U8), 2),
  TLbuf(U16, 2, 1, FALSE), TLbuf(TStr(1), 2, 1, FALSE), TTup(<<U8, TStr(1)>>), TStruct(<<U8, U8>>), TPair(U8, I16),
  TMap(U8, U8), TOpt(U8), TOpt(TStr(1)), TRes(TEnum(1, FALSE), U16), TVar(<<U8, TStr(1)>>),
  TTable(W0, <<TEntry(WordOfNat(0, 8), TRUE, U8), TEntry(WordOfNat(1, 8), TRUE, TStr(1)), TEntry(WordOfNat(2, 8), FALSE, U8)>>)
>>

VARIABLES si, b
vars == <<si, b>>
Init == si \in 1..Len(Pool) /\ b = <<>>
Next == Len(b) < MaxLen /\ \E x \in Alphabet : b' = Append(b, x) /\ si' = si
Spec == Init /\ [][Next]_vars

S == Pool[si]
W5 ==
  LET d == Dec(S, Src(b), 0, Inf) IN
  /\ d.ok => InLang(S, Take(b, d.pos))
  /\ \A n \in 1..Len(b) : InLang(S, Take(b, n)) => (d.ok /\ d.pos = n)
=============================================================================
