-------------------------------- MODULE TrObj --------------------------------
(***************************************************************************)
(* Trace specification for C12 (Variant), C13 (Optional, Entry, Result,    *)
(* Status) and C15b (UniqueHandle).  An OBJ event is an operation history  *)
(* on up to three interacting objects; after every operation the executor  *)
(* logged the full projected state of every object (index / emptiness /    *)
(* value, what Visit and get<T> report, the ledger of live elements).      *)
(* Each operation must be a step admitted by the relations of Lifetimes.   *)
(***************************************************************************)
EXTENDS Lifetimes, Json, IOUtils, TLC

Log == ndJsonDeserialize(IOEnv.TRACE)
PROP == IOEnv.PROP
VARIABLES l, nrej
vars == <<l, nrej>>
Has(r, f) == f \in DOMAIN r
Tag(cond, tag) == IF cond THEN {} ELSE {tag}
UnionOver(n, F(_)) == UNION {F(i) : i \in 1..n}
InitSlots == [s \in Slots |-> None]

\* ---- projections of the observations ----------------------------------------------
VProj(obs) == [s \in Slots |-> IF obs[s].ex THEN [i |-> obs[s].i, v |-> IF obs[s].i = -1 THEN 0 ELSE obs[s].val] ELSE None]
VConsistent(obs) ==
  \A s \in Slots : obs[s].ex =>
    LET x == obs[s] IN
    /\ x.i \in {-1, 0, 1, 2}
    /\ x.empty <=> x.i = -1
    /\ x.vc = 1 /\ x.vt = x.i                      \* Visit calls the visitor exactly once, with the active element or EmptyVariant
    /\ x.ga <=> x.i = 0                            \* get<T>() is non-null exactly when T is active
    /\ x.gi <=> x.i = 1
    /\ x.gb <=> x.i = 2
    /\ x.cga = x.ga /\ x.cgi = x.gi /\ x.cgb = x.gb     \* const and index-based accessors agree with get<T>()
    /\ x.g0 = x.ga /\ x.g1 = x.gi /\ x.g2 = x.gb
    /\ (x.i # -1 => x.sg = x.val)                         \* std::get<T> / std::get<I> deliver the active element
    /\ (x.any_ai <=> x.i \in {0, 1})                       \* IfAnyOf<A, int>::Get: true exactly for those alternatives,
    /\ (x.any_ai => x.any_t = x.i /\ x.any_v = x.val)      \*   delivering the active value
    /\ (x.any_b <=> x.i = 2) /\ x.any_bc = (IF x.i = 2 THEN 1 ELSE 0)   \* IfAnyOf<B>::Call: the op runs once iff B is active
    /\ x.isa <=> x.i = 0
    /\ x.isi <=> x.i = 1
    /\ x.isb <=> x.i = 2
OProj(obs) == [s \in Slots |-> IF obs[s].ex THEN (IF obs[s].empty THEN OEmpty ELSE OVal(obs[s].val)) ELSE None]
OConsistent(obs) == \A s \in Slots : obs[s].ex => (obs[s].bool <=> ~obs[s].empty)
RProj(obs) == [s \in Slots |-> IF obs[s].ex THEN (IF obs[s].hv THEN [s |-> "val", v |-> obs[s].val]
                                                   ELSE IF obs[s].he THEN [s |-> "err", c |-> obs[s].err] ELSE REmpty) ELSE None]
RConsistent(obs) ==
  \A s \in Slots : obs[s].ex =>
    LET x == obs[s] IN
    /\ ~(x.hv /\ x.he)
    /\ x.bool <=> x.hv
    /\ x.he => x.err # 0                           \* an error other than None
    /\ ~x.he => x.err = 0
\* Result<E, void> (Status<void>): no value; bool means "no error"
RVConsistent(obs) ==
  \A s \in Slots : obs[s].ex =>
    LET x == obs[s] IN
    /\ ~x.hv
    /\ x.bool <=> ~x.he
    /\ x.he => x.err # 0
    /\ ~x.he => x.err = 0
HProj(o) == [slots |-> [s \in Slots |-> IF o.obs[s].ex THEN [r |-> o.obs[s].val] ELSE None],
             closed |-> [r \in 0..(NRes - 1) |-> o.closed[r + 1]], released |-> [r \in 0..(NRes - 1) |-> o.released[r + 1]]]

\* ---- folds over the operation history -------------------------------------------------
RECURSIVE VFold(_, _, _), OFold(_, _, _), RFold(_, _, _), HFold(_, _, _)
VFold(e, pre, i) ==
  IF i > Len(e.ops) THEN Tag(e.end.alive = <<0, 0, 0>> /\ e.end.dd = 0 /\ e.end.du = 0, "end-ledger")
  ELSE LET o == e.ops[i]
           post == VProj(o.obs) IN
    IF Has(o, "bad") \/ ~VPre(pre, o) THEN Tag(post = pre, "inapplicable-op-changed-state") \cup VFold(e, post, i + 1)
    ELSE Tag(VConsistent(o.obs), "observers:" \o o.op)
         \cup Tag(VPost(pre, o, post, o.threw), "state:" \o o.op \o (IF o.threw THEN ":threw" ELSE ""))
         \cup Tag(o.alive = VAlive(post), "live-elements:" \o o.op)
         \cup Tag(o.dd = 0, "double-destruction:" \o o.op)
         \cup Tag(o.du = 0, "dead-element-used:" \o o.op)
         \cup (IF o.op \in {"swap_a", "take_a"}
               THEN LET was == pre[o.o + 1] IN
                    Tag(o.did <=> was.i = 0, "if-any-of:" \o o.op)
                    \cup Tag(o.out = (IF was.i = 0 THEN was.v ELSE o.val), "if-any-of-value:" \o o.op)
               ELSE {})
         \cup (IF o.op = "visit" THEN Tag(o.opvc = 1 /\ o.opvt = pre[o.o + 1].i /\ (o.opvt = -1 \/ o.opval = pre[o.o + 1].v), "visit") ELSE {})
         \cup VFold(e, post, i + 1)

OFold(e, pre, i) ==
  IF i > Len(e.ops) THEN Tag(e.end.alive = <<0, 0, 0>> /\ e.end.dd = 0 /\ e.end.du = 0, "end-ledger")
  ELSE LET o == e.ops[i]
           post == OProj(o.obs)
           counted == e.machine # "optional_int" IN
    IF Has(o, "bad") \/ ~OPre(pre, o) THEN Tag(post = pre, "inapplicable-op-changed-state") \cup OFold(e, post, i + 1)
    ELSE Tag(OConsistent(o.obs), "observers:" \o o.op)
         \cup Tag(OPost(pre, o, post, o.threw), "state:" \o o.op \o (IF o.threw THEN ":threw" ELSE ""))
         \cup (IF counted THEN Tag(o.alive = OAlive(post), "live-elements:" \o o.op) ELSE {})
         \cup Tag(o.dd = 0, "double-destruction:" \o o.op)
         \cup Tag(o.du = 0, "dead-element-used:" \o o.op)
         \cup (IF o.op = "take" /\ ~o.threw THEN Tag(Has(o, "taken") /\ o.taken = pre[o.o + 1].v, "take") ELSE {})
         \* moving from an object by assignment leaves it empty - also when the element types differ
         \cup (IF o.op = "assign_conv_move" THEN Tag(o.src_after_empty, "converting-move-source-not-emptied") ELSE {})
         \cup (IF o.op = "assign_conv_copy" THEN Tag(o.src_after_empty = o.srcempty, "converting-copy-changed-source") ELSE {})
         \cup OFold(e, post, i + 1)

RFold(e, pre, i) ==
  IF i > Len(e.ops) THEN Tag(e.end.alive = <<0, 0, 0>> /\ e.end.dd = 0 /\ e.end.du = 0, "end-ledger")
  ELSE LET o == e.ops[i]
           post == RProj(o.obs) IN
    IF Has(o, "bad") \/ ~RPre(pre, o) THEN Tag(post = pre, "inapplicable-op-changed-state") \cup RFold(e, post, i + 1)
    ELSE Tag(IF e.machine = "result_void" THEN RVConsistent(o.obs) ELSE RConsistent(o.obs), "observers:" \o o.op)
         \cup Tag(RPost(pre, o, post, o.threw), "state:" \o o.op \o (IF o.threw THEN ":threw" ELSE ""))
         \cup Tag(o.alive = RAlive(post), "live-elements:" \o o.op)
         \cup Tag(o.dd = 0, "double-destruction:" \o o.op)
         \cup Tag(o.du = 0, "dead-element-used:" \o o.op)
         \cup (IF o.op = "take" /\ ~o.threw THEN Tag(Has(o, "taken") /\ o.taken = pre[o.o + 1].v, "take") ELSE {})
         \cup RFold(e, post, i + 1)

\* closing everything that is still owned at the end (the harness destroys the remaining objects)
RECURSIVE CloseAll(_, _)
CloseAll(st, s) == IF s > K THEN st ELSE CloseAll([st EXCEPT !.closed = CloseOf(st, s), !.slots[s] = None], s + 1)
HFold(e, pre, i) ==
  IF i > Len(e.ops)
  THEN LET fin == CloseAll(pre, 1) IN
       Tag(HProj(e.end).closed = fin.closed /\ e.end.bad_close = 0, "close-at-destruction")
       \cup Tag(HClosedOnce(fin), "closed-once")
  ELSE LET o == e.ops[i]
           post == HProj(o) IN
    IF Has(o, "bad") \/ ~HPre(pre, o) THEN Tag(post = pre, "inapplicable-op-changed-state") \cup HFold(e, post, i + 1)
    ELSE Tag(post = HNext(pre, o), "ownership:" \o o.op)
         \cup Tag(\A s \in Slots : o.obs[s].ex => (o.obs[s].bool <=> o.obs[s].val >= 0), "observers:" \o o.op)
         \cup (IF o.op = "release" THEN Tag(o.got = pre.slots[o.o + 1].r, "release-value") ELSE {})
         \cup Tag(HClosedOnce(post), "closed-once:" \o o.op)
         \cup HFold(e, post, i + 1)

\* FdReader / FdWriter own a descriptor exactly like a UniqueHandle, but offer no accessor: the model state is carried
\* along (HNext) and compared with what the descriptor table shows - which descriptors are closed / were released -
\* and no descriptor may ever be closed a second time (the harness re-occupies every freed number with a sentinel)
RECURSIVE FFold(_, _, _)
Counts(f) == [r \in 0..(NRes - 1) |-> f[r + 1]]
FFold(e, st, i) ==
  IF i > Len(e.ops)
  THEN LET fin == CloseAll(st, 1) IN
       Tag(Counts(e.end.closed) = fin.closed /\ Counts(e.end.released) = fin.released, "close-at-destruction")
       \cup Tag(e.end.stolen = 0, "descriptor-closed-twice")
  ELSE LET o == e.ops[i] IN
    IF Has(o, "bad") \/ ~HPre(st, o) THEN FFold(e, st, i + 1)
    ELSE LET post == HNext(st, o) IN
         Tag(Counts(o.closed) = post.closed /\ Counts(o.released) = post.released, "ownership:" \o o.op)
         \cup Tag(o.stolen = 0, "descriptor-closed-twice:" \o o.op)
         \cup (IF o.op = "release" THEN Tag(o.got = st.slots[o.o + 1].r, "release-value") ELSE {})
         \cup Tag(HClosedOnce(post), "closed-once:" \o o.op)
         \cup FFold(e, post, i + 1)

CmpFails(e) ==
  UnionOver(Len(e.rows), LAMBDA i :
    LET r == e.rows[i] IN
    Tag(r.oo = OptCmp(r.a, r.b), "optional-optional")
    \cup (IF Has(r, "ov") THEN Tag(r.ov = OptCmp(r.a, r.b), "optional-value") ELSE {})
    \cup (IF Has(r, "vo") THEN Tag(r.vo = OptCmp(r.a, r.b), "value-optional") ELSE {}))

\* defined for every ErrorStatus (codes 0..18): present, non-empty, and not the fallback given for an unknown code (row 20)
MsgFails(e) ==
  UnionOver(19, LAMBDA i :
    LET r == e.rows[i] IN
    Tag(~r.null /\ r.msg # "" /\ r.msg # e.rows[20].msg, "message-undefined")
    \cup Tag(r.code = 0 \/ \A j \in 2..19 : (j # i => e.rows[j].msg # r.msg), "message-not-distinct"))

Fails(e) ==
  IF e.e \in {"UB", "Crash", "Exc", "Timeout", "BadCmd", "Race"} THEN {"abnormal"}
  ELSE CASE e.e = "OBJ" /\ e.machine = "variant" -> VFold(e, InitSlots, 1)
         [] e.e = "OBJ" /\ e.machine \in {"optional", "optional_int", "entry"} -> OFold(e, InitSlots, 1)
         [] e.e = "OBJ" /\ e.machine \in {"result", "result_void"} -> RFold(e, InitSlots, 1)
         [] e.e = "OBJ" /\ e.machine \in {"uhandle", "ufile"} -> HFold(e, HInit, 1)
         [] e.e = "OBJ" /\ e.machine \in {"fdreader", "fdwriter"} -> FFold(e, HInit, 1)
         [] e.e = "CMP" -> CmpFails(e)
         [] e.e = "MSG" -> MsgFails(e)
         [] OTHER -> {}

Init == l = 1 /\ nrej = 0
Step ==
  /\ l <= Len(Log)
  /\ LET e == Log[l]
         why == Fails(e)
         ok == why = {} IN
     /\ (IF ok THEN TRUE ELSE PrintT("REJECT " \o ToJson([l |-> l, idx |-> e.idx, e |-> e.e, why |-> why])))
     /\ nrej' = IF ok THEN nrej ELSE nrej + 1
  /\ l' = l + 1
Done == l = Len(Log) + 1 /\ PrintT("DONE " \o ToJson([n |-> Len(Log), nrej |-> nrej])) /\ UNCHANGED vars
Next == Step \/ Done
Spec == Init /\ [][Next]_vars
=============================================================================
