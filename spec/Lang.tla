-------------------------------- MODULE Lang --------------------------------
(***************************************************************************)
(* A second, *declarative* formulation of docs/format.md: InLang(S, bs)    *)
(* says that the byte string bs is, as a whole, a well-formed encoding of  *)
(* the type S - by structure (prefix, fields, a partition of the rest into *)
(* members), without threading a read position.  Dec of Wire.tla is the    *)
(* operational formulation; theorem W5 (MC_Lang) states that they agree on *)
(* every byte string and that well-formed encodings are prefix-free.       *)
(* It deliberately shares no operator with Wire.tla except the prefix      *)
(* constants and the byte helpers.                                         *)
(***************************************************************************)
EXTENDS Bytes

L_STR == 189  L_BIN == 188  L_ARY == 186  L_STU == 185  L_MAP == 187  L_NIL == 190
L_ERR == 182  L_VAR == 184  L_TAB == 181  L_HND == 183  L_F32 == 136  L_F64 == 137

\* the integer classes of format.md as (prefix, payload bytes)
UClasses == {<<128, 1>>, <<129, 2>>, <<130, 4>>, <<131, 8>>}
SClasses == {<<132, 1>>, <<133, 2>>, <<134, 4>>, <<135, 8>>}

Sub(bs, i, j) == SubSeq(bs, i, j)          \* bytes i..j (1-based, inclusive); empty if i > j

\* bs is exactly one integer of the given signedness in a class no wider than w bytes
IsInt(bs, w, signed) ==
  /\ Len(bs) >= 1
  /\ \/ Len(bs) = 1 /\ (bs[1] < 128 \/ (signed /\ bs[1] >= 192))
     \/ \E c \in (IF signed THEN SClasses ELSE UClasses) : bs[1] = c[1] /\ c[2] <= w /\ Len(bs) = 1 + c[2]
\* its value as an 8-byte word
IntWord(bs, signed) ==
  IF Len(bs) = 1 THEN (IF signed THEN SignExt(<<bs[1]>>, 8) ELSE ZeroExt(<<bs[1]>>, 8))
  ELSE (IF signed THEN SignExt(Sub(bs, 2, Len(bs)), 8) ELSE ZeroExt(Sub(bs, 2, Len(bs)), 8))
\* a UINT64 length / count / id / size field and its (small) value
IsU64(bs) == IsInt(bs, 8, FALSE)
U64Nat(bs) == NatOf(IntWord(bs, FALSE))

IsIntegralL(S) == S.k \in {"int", "char", "bool"}
ElemSizeL(S) == IF S.k = "int" THEN S.w ELSE 1

RECURSIVE InLang(_, _), Members(_, _, _), Repeated(_, _, _), Pairs(_, _, _, _), Entries(_, _, _, _)

\* bs is the concatenation of encodings of Ss[i], Ss[i+1], ...
Members(Ss, bs, i) ==
  IF i > Len(Ss) THEN bs = <<>>
  ELSE \E j \in 1..Len(bs) : InLang(Ss[i], Sub(bs, 1, j)) /\ Members(Ss, Sub(bs, j + 1, Len(bs)), i + 1)
\* bs is the concatenation of exactly n encodings of S
Repeated(S, bs, n) ==
  IF n = 0 THEN bs = <<>>
  ELSE \E j \in 1..Len(bs) : InLang(S, Sub(bs, 1, j)) /\ Repeated(S, Sub(bs, j + 1, Len(bs)), n - 1)
Pairs(K, V, bs, n) ==
  IF n = 0 THEN bs = <<>>
  ELSE \E j \in 1..Len(bs), k \in 1..Len(bs) :
         j < k /\ InLang(K, Sub(bs, 1, j)) /\ InLang(V, Sub(bs, j + 1, k)) /\ Pairs(K, V, Sub(bs, k + 1, Len(bs)), n - 1)
\* bs is n table entries; seen = ids of active entries already present (no duplicates)
Entries(S, bs, n, seen) ==
  IF n = 0 THEN bs = <<>>
  ELSE \E a \in 1..Len(bs), b \in 1..Len(bs) :
         /\ a < b
         /\ IsU64(Sub(bs, 1, a))                                    \* id
         /\ IsU64(Sub(bs, a + 1, b))                                \* declared size
         /\ LET id == IntWord(Sub(bs, 1, a), FALSE)
                sz == U64Nat(Sub(bs, a + 1, b))
                act == {i \in 1..Len(S.ents) : S.ents[i].id = id /\ S.ents[i].act} IN
            /\ sz # Huge /\ b + sz <= Len(bs)
            /\ id \notin seen
            /\ (act # {} =>
                  \* the value is a prefix of the sz bytes of the frame; the rest is padding
                  \E v \in 0..sz : InLang(S.ents[CHOOSE i \in act : TRUE].e, Sub(bs, b + 1, b + v)))
            /\ Entries(S, Sub(bs, b + sz + 1, Len(bs)), n - 1, IF act # {} THEN seen \cup {id} ELSE seen)

\* the part of bs after a leading prefix byte and a U64 field, given where the field ends
InLang(S, bs) ==
  IF Len(bs) = 0 THEN FALSE
  ELSE
  CASE S.k = "bool" -> bs \in {<<0>>, <<1>>}
    [] S.k = "char" -> IsInt(bs, 1, FALSE)
    [] S.k \in {"int", "enum"} -> IsInt(bs, S.w, S.s)
    [] S.k = "flt" -> Len(bs) = 1 + S.w /\ bs[1] = (IF S.w = 4 THEN L_F32 ELSE L_F64)
    [] S.k = "str" ->
         bs[1] = L_STR /\ \E j \in 2..Len(bs) :
           IsU64(Sub(bs, 2, j)) /\ U64Nat(Sub(bs, 2, j)) = Len(bs) - j /\ ((Len(bs) - j) % S.cw) = 0
    [] S.k \in {"vec", "arr", "carr", "lbuf"} ->
         IF IsIntegralL(S.e)
         THEN bs[1] = L_BIN /\ \E j \in 2..Len(bs) :
                LET n == Len(bs) - j IN
                /\ IsU64(Sub(bs, 2, j)) /\ U64Nat(Sub(bs, 2, j)) = n /\ (n % ElemSizeL(S.e)) = 0
                /\ (S.k \in {"arr", "carr"} => n = S.n * ElemSizeL(S.e))
                /\ (S.k = "lbuf" /\ ~S.unb => n <= S.n * ElemSizeL(S.e))
         ELSE bs[1] = L_ARY /\ \E j \in 2..Len(bs) :
                /\ IsU64(Sub(bs, 2, j))
                /\ LET n == U64Nat(Sub(bs, 2, j)) IN
                   /\ n # Huge /\ n <= Len(bs)
                   /\ (S.k \in {"arr", "carr"} => n = S.n)
                   /\ (S.k = "lbuf" /\ ~S.unb => n <= S.n)
                   /\ Repeated(S.e, Sub(bs, j + 1, Len(bs)), n)
    [] S.k \in {"pair", "tup", "struct"} ->
         bs[1] = (IF S.k = "struct" THEN L_STU ELSE L_ARY) /\ \E j \in 2..Len(bs) :
           IsU64(Sub(bs, 2, j)) /\ U64Nat(Sub(bs, 2, j)) = Len(S.m) /\ Members(S.m, Sub(bs, j + 1, Len(bs)), 1)
    [] S.k \in {"map", "umap"} ->
         bs[1] = L_MAP /\ \E j \in 2..Len(bs) :
           IsU64(Sub(bs, 2, j)) /\ U64Nat(Sub(bs, 2, j)) # Huge /\ U64Nat(Sub(bs, 2, j)) <= Len(bs)
           /\ Pairs(S.key, S.val, Sub(bs, j + 1, Len(bs)), U64Nat(Sub(bs, 2, j)))
    [] S.k \in {"ref", "wrap"} -> InLang(S.e, bs)
    [] S.k = "opt" -> bs = <<L_NIL>> \/ InLang(S.e, bs)
    [] S.k = "res" -> (bs[1] = L_ERR /\ IsInt(Sub(bs, 2, Len(bs)), S.err.w, S.err.s)) \/ InLang(S.e, bs)
    [] S.k = "emptyvar" -> bs = <<L_NIL>>
    [] S.k = "var" ->
         bs[1] = L_VAR /\ \E j \in 2..Len(bs) :
           /\ IsInt(Sub(bs, 2, j), 8, TRUE)                          \* format.md: INT64
           /\ LET iw == IntWord(Sub(bs, 2, j), TRUE)
                  rest == Sub(bs, j + 1, Len(bs)) IN
              \/ iw = <<255, 255, 255, 255, 255, 255, 255, 255>> /\ rest = <<L_NIL>>
              \/ ~IsNeg(iw) /\ NatOf(iw) # Huge /\ NatOf(iw) < Len(S.m) /\ InLang(S.m[NatOf(iw) + 1], rest)
    [] S.k = "hnd" ->
         bs[1] = L_HND /\ \E j \in 2..Len(bs) :
           /\ IsInt(Sub(bs, 2, j), S.tt.w, S.tt.s)
           /\ (IF S.tt.s THEN SignExt(S.tv, 8) ELSE ZeroExt(S.tv, 8)) = IntWord(Sub(bs, 2, j), S.tt.s)
           /\ IsInt(Sub(bs, j + 1, Len(bs)), 8, TRUE)
           /\ IntWord(Sub(bs, j + 1, Len(bs)), TRUE) = <<255, 255, 255, 255, 255, 255, 255, 255>>   \* only the empty reference resolves
    [] S.k = "table" ->
         bs[1] = L_TAB /\ \E a \in 2..Len(bs), b \in 2..Len(bs) :
           /\ a < b
           /\ IsU64(Sub(bs, 2, a)) /\ IntWord(Sub(bs, 2, a), FALSE) = S.hash
           /\ IsU64(Sub(bs, a + 1, b)) /\ U64Nat(Sub(bs, a + 1, b)) # Huge /\ U64Nat(Sub(bs, a + 1, b)) <= Len(bs)
           /\ Entries(S, Sub(bs, b + 1, Len(bs)), U64Nat(Sub(bs, a + 1, b)), {})
=============================================================================
