SPECIFICATION Spec
CONSTANT MaxLen = 5
INVARIANT W5
CHECK_DEADLOCK FALSE
