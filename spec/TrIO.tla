-------------------------------- MODULE TrIO --------------------------------
(***************************************************************************)
(* Trace specification for C16 (Bounded wrappers confine traffic) and C17  *)
(* (one byte-source / byte-sink contract).  Every IO event is a sequence   *)
(* of primitive calls made on a real library reader / writer; each call    *)
(* must be the corresponding step of the automata of IO.tla.               *)
(*                                                                         *)
(* C17 constrains the plain kinds up to and including the first failing    *)
(* call (and the bounded kinds in direct mode likewise); C16 constrains    *)
(* BoundedReader/BoundedWriter over an instrumented wrapped object for the *)
(* whole sequence: status, index, the wrapped object's position and the    *)
(* exact calls it received.                                                *)
(***************************************************************************)
EXTENDS IOFold, Json, IOUtils, TLC

Log == ndJsonDeserialize(IOEnv.TRACE)
PROP == IOEnv.PROP

VARIABLES l, nrej
vars == <<l, nrej>>

Init == l = 1 /\ nrej = 0
Step ==
  /\ l <= Len(Log)
  /\ LET e == Log[l]
         why == Fails(e)
         ok == why = {} IN
     /\ (IF ok THEN TRUE ELSE PrintT("REJECT " \o ToJson([l |-> l, idx |-> e.idx, e |-> e.e, why |-> why])))
     /\ nrej' = IF ok THEN nrej ELSE nrej + 1
  /\ l' = l + 1
Done == l = Len(Log) + 1 /\ PrintT("DONE " \o ToJson([n |-> Len(Log), nrej |-> nrej])) /\ UNCHANGED vars
Next == Step \/ Done
Spec == Init /\ [][Next]_vars
=============================================================================
