------------------------------ MODULE Fungible ------------------------------
(***************************************************************************)
(* C09.  DocFungible(A, B): the pairs of types the documentation declares  *)
(* fungible (docs/getting-started.md "Fungibility", "Fungible User-Defined *)
(* Types", and the rule comments of traits/is_fungible.h): array-like      *)
(* types with fungible elements, tuples / pairs member-wise, non-integral  *)
(* sequences with tuples, maps with unordered maps, logical buffers with   *)
(* vectors, value wrappers with the wrapped type, member-wise fungible     *)
(* structures, Optional / Result / Variant element-wise, tables with the   *)
(* same hash and pairwise fungible entries.                                *)
(* Norm(S, v): the wire-level content of a value, in which corresponding   *)
(* values of fungible types coincide.                                      *)
(***************************************************************************)
EXTENDS Wire

SeqLike == {"vec", "arr", "carr"}
FixedLen(S) == S.k \in {"arr", "carr"}

RECURSIVE DocFungible(_, _)
AllFungible(Ms, Ns) == Len(Ms) = Len(Ns) /\ \A i \in 1..Len(Ms) : DocFungible(Ms[i], Ns[i])
DocFungible(A, B) ==
  IF A = B THEN TRUE
  ELSE IF A.k = "wrap" /\ B.k = "wrap" THEN DocFungible(A.e, B.e)
  ELSE IF A.k = "wrap" THEN DocFungible(A.e, B)
  ELSE IF B.k = "wrap" THEN DocFungible(A, B.e)
  \* array-like types: fungible elements; two fixed-size arrays need the same size
  ELSE IF A.k \in SeqLike /\ B.k \in SeqLike
       THEN DocFungible(A.e, B.e) /\ ((FixedLen(A) /\ FixedLen(B)) => A.n = B.n)
  \* logical buffers: with vectors, and with each other when the underlying arrays are fungible
  ELSE IF A.k = "lbuf" /\ B.k = "vec" THEN DocFungible(A.e, B.e)
  ELSE IF A.k = "vec" /\ B.k = "lbuf" THEN DocFungible(A.e, B.e)
  ELSE IF A.k = "lbuf" /\ B.k = "lbuf" THEN DocFungible(A.e, B.e) /\ A.n = B.n /\ A.ak = B.ak
  \* tuples and pairs member-wise
  ELSE IF A.k \in {"tup", "pair"} /\ B.k \in {"tup", "pair"} THEN AllFungible(A.m, B.m)
  \* a non-integral sequence and a tuple whose every member is fungible with the element type
  ELSE IF A.k \in SeqLike /\ B.k = "tup" /\ ~IsIntegral(A.e)
       THEN (FixedLen(A) => A.n = Len(B.m)) /\ \A i \in 1..Len(B.m) : DocFungible(A.e, B.m[i])
  ELSE IF A.k = "tup" /\ B.k \in SeqLike /\ ~IsIntegral(B.e)
       THEN (FixedLen(B) => B.n = Len(A.m)) /\ \A i \in 1..Len(A.m) : DocFungible(A.m[i], B.e)
  ELSE IF A.k \in {"map", "umap"} /\ B.k \in {"map", "umap"} THEN DocFungible(A.key, B.key) /\ DocFungible(A.val, B.val)
  ELSE IF A.k = "opt" /\ B.k = "opt" THEN DocFungible(A.e, B.e)
  ELSE IF A.k = "res" /\ B.k = "res" THEN A.err = B.err /\ DocFungible(A.e, B.e)
  ELSE IF A.k = "var" /\ B.k = "var" THEN AllFungible(A.m, B.m)
  ELSE IF A.k = "struct" /\ B.k = "struct" THEN AllFungible(A.m, B.m)
  ELSE IF A.k = "table" /\ B.k = "table"
       THEN A.hash = B.hash /\ Len(A.ents) = Len(B.ents)
            /\ \A i \in 1..Len(A.ents) : A.ents[i].id = B.ents[i].id /\ A.ents[i].act = B.ents[i].act
                                        /\ DocFungible(A.ents[i].e, B.ents[i].e)
  ELSE FALSE

RECURSIVE Norm(_, _)
Norm(S, v) ==
  CASE S.k \in {"vec", "arr", "carr", "lbuf"} -> [i \in 1..Len(v.n) |-> Norm(S.e, v.n[i])]
    [] S.k \in {"tup", "pair", "struct"} -> [i \in 1..Len(S.m) |-> Norm(S.m[i], v.m[i])]
    [] S.k \in {"map", "umap"} -> {<<Norm(S.key, v.kv[i][1]), Norm(S.val, v.kv[i][2])>> : i \in 1..Len(v.kv)}
    [] S.k \in {"wrap", "ref"} -> Norm(S.e, v)
    [] S.k = "opt" -> [i \in 1..Len(v.o) |-> Norm(S.e, v.o[i])]
    [] S.k = "res" -> IF v.r = "val" THEN <<"val", Norm(S.e, v.v)>> ELSE <<v.r, v.e>>
    [] S.k = "var" -> IF "v" \in DOMAIN v THEN <<v.i, Norm(S.m[NatOf(v.i) + 1], v.v)>> ELSE <<v.i>>
    [] S.k = "table" -> [i \in 1..Len(S.ents) |-> IF v.t[i].p THEN <<v.t[i].id, Norm(S.ents[i].e, v.t[i].v)>> ELSE <<v.t[i].id>>]
    [] OTHER -> v
=============================================================================
