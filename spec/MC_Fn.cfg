SPECIFICATION Spec
INVARIANT SipVectors
INVARIANT EndianTheorems
CHECK_DEADLOCK FALSE
