------------------------------ MODULE Gen_Life ------------------------------
(***************************************************************************)
(* Model checking and behaviour generation for Lifetimes.tla.  TLC         *)
(* explores every applicable operation history of length Depth over two    *)
(* objects (values {1,2}, element constructors that may throw), checks the *)
(* design-level invariants and prints every maximal history as JSON; the   *)
(* histories are replayed on the real Variant / Optional / Entry / Result  *)
(* / UniqueHandle objects and validated by TrObj.tla.                      *)
(***************************************************************************)
EXTENDS Lifetimes, TLC, Json

CONSTANTS Machine, Depth, Emitting
O == {0, 1}
V == {1, 2}

VOps ==
  {[op |-> n, o |-> o] : n \in {"new_empty", "new_ev", "assign_ev", "visit", "destroy", "assign_own"}, o \in O}
  \cup {[op |-> n, o |-> o, val |-> x, throw |-> t] : n \in {"new_a", "new_b", "new_c", "new_t", "assign_a", "assign_b", "assign_c", "assign_t"}, o \in O, x \in V, t \in BOOLEAN}
  \cup {[op |-> n, o |-> o, val |-> x] : n \in {"new_i", "assign_i"}, o \in O, x \in {7}}
  \cup {[op |-> n, o |-> o, val |-> x] : n \in {"new_sub_a", "new_sub_b", "assign_sub_a", "assign_sub_b", "swap_a", "take_a"}, o \in O, x \in {5}}
  \cup {[op |-> n, o |-> o] : n \in {"new_sub_empty", "assign_sub_empty"}, o \in O}
  \cup {[op |-> n, o |-> o, p |-> p, throw |-> t] : n \in {"new_copy", "assign_copy"}, o \in O, p \in O, t \in BOOLEAN}
  \cup {[op |-> n, o |-> o, p |-> p] : n \in {"new_move", "assign_move"}, o \in O, p \in O}
  \cup {[op |-> "become", o |-> o, idx |-> k] : o \in O, k \in {-2, -1, 0, 1, 2, 3}}
OOps ==
  {[op |-> n, o |-> o] : n \in {"new_empty", "clear", "take", "destroy", "assign_own"}, o \in O}
  \* (throwing element constructors are part of C12's quantifier only: Optional's storage constructor is noexcept)
  \cup {[op |-> n, o |-> o, val |-> x] : n \in {"new_val", "assign_val", "new_rval", "assign_rval"}, o \in O, x \in V}
  \cup {[op |-> n, o |-> o, p |-> p] : n \in {"new_copy", "assign_copy", "new_move", "assign_move"}, o \in O, p \in O}
OConvOps == {[op |-> n, o |-> o, val |-> x, srcempty |-> se] : n \in {"assign_conv_move", "assign_conv_copy"}, o \in O, x \in V, se \in BOOLEAN}
ROps ==
  OOps \cup {[op |-> n, o |-> o, val |-> x] : n \in {"new_err", "assign_err"}, o \in O, x \in {0, 1, 2}}
\* Result<E, void>: the same machine without values
RVOps ==
  {[op |-> n, o |-> o] : n \in {"new_empty", "clear", "destroy"}, o \in O}
  \cup {[op |-> n, o |-> o, p |-> p] : n \in {"new_copy", "assign_copy", "new_move", "assign_move"}, o \in O, p \in O}
  \cup {[op |-> n, o |-> o, val |-> x] : n \in {"new_err", "assign_err"}, o \in O, x \in {0, 1, 2}}
HOps(st) ==
  {[op |-> n, o |-> o] : n \in {"new_empty", "release", "close", "destroy"}, o \in O}
  \cup {[op |-> "new_res", o |-> o, r |-> CHOOSE r \in 0..(NRes - 1) : r \notin HOwned(st) /\ st.closed[r] = 0 /\ st.released[r] = 0] : o \in O}
  \cup {[op |-> n, o |-> o, p |-> p] : n \in {"new_move", "assign_move"}, o \in O, p \in O}

VARIABLES st, hist
vars == <<st, hist>>
InitSlots == [s \in Slots |-> None]
Init == hist = <<>> /\ st = IF Machine = "uhandle" THEN HInit ELSE InitSlots

\* an operation that cannot throw in the model is recorded with throw = FALSE
Step(op) ==
  /\ hist' = Append(hist, op)
  /\ st' = CASE Machine = "variant" -> VNext(st, op)
             [] Machine = "optional" -> ONext(st, op)
             [] Machine \in {"result", "result_void"} -> RNext(st, op)
             [] Machine = "uhandle" -> HNext(st, op)
Next ==
  /\ Len(hist) < Depth
  /\ \E op \in (CASE Machine = "variant" -> VOps [] Machine = "optional" -> OOps \cup OConvOps [] Machine = "result" -> ROps [] Machine = "result_void" -> RVOps
                  [] Machine = "uhandle" -> HOps(st)) :
       /\ CASE Machine = "variant" -> VPre(st, op) [] Machine = "optional" -> OPre(st, op)
            [] Machine \in {"result", "result_void"} -> RPre(st, op) [] Machine = "uhandle" -> HPre(st, op)
       /\ Step(op)
Spec == Init /\ [][Next]_vars

\* the canonical successor is admitted by the relation the traces are checked against
Admitted ==
  [][hist' # hist =>
       LET op == hist'[Len(hist')] IN
       CASE Machine = "variant" -> VPost(st, op, st', FALSE)
         [] Machine = "optional" -> OPost(st, op, st', FALSE)
         [] Machine \in {"result", "result_void"} -> RPost(st, op, st', FALSE)
         [] Machine = "uhandle" -> TRUE]_vars
\* C15b at design level
HandleInv == Machine = "uhandle" => (HClosedOnce(st) /\ HUnique(st))
\* state-shape invariants of the other machines
ShapeInv ==
  /\ Machine = "variant" => \A s \in Slots : st[s] = None \/ (st[s].i \in {-1, 0, 1, 2} /\ (st[s].i = -1 => st[s].v = 0))
  /\ Machine \in {"result", "result_void"} => \A s \in Slots : st[s] = None \/ st[s].s \in {"empty", "val"} \/ (st[s].s = "err" /\ st[s].c # 0)
Emit == (Emitting /\ Len(hist) = Depth) => PrintT(ToJson(hist))
=============================================================================
