-------------------------------- MODULE TrFn --------------------------------
(***************************************************************************)
(* Trace specification for the functional properties C18 (hashes and       *)
(* selectors are SipHash-2-4 of the names) and C20 (HostEndian).  The      *)
(* functions are transcribed from their documentation (SipHash.tla from    *)
(* the SipHash paper, Endian.tla from the definition of byte order) and    *)
(* every result the implementation produced is compared with TLC's         *)
(* evaluation of the transcription.                                        *)
(***************************************************************************)
EXTENDS SipHash, Endian, Bytes, Json, IOUtils, TLC

Log == ndJsonDeserialize(IOEnv.TRACE)
PROP == IOEnv.PROP

VARIABLES l, nrej
vars == <<l, nrej>>
Has(r, f) == f \in DOMAIN r
Tag(cond, tag) == IF cond THEN {} ELSE {tag}
UnionOver(n, F(_)) == UNION {F(i) : i \in 1..n}

\* the UINT64 integer class of a hash on the wire (format.md), smallest class
EncU64(word) ==
  IF UFits(word, 1) /\ word[1] < 128 THEN <<word[1]>>
  ELSE IF UFits(word, 1) THEN <<128, word[1]>>
  ELSE IF UFits(word, 2) THEN <<129>> \o Take(word, 2)
  ELSE IF UFits(word, 4) THEN <<130>> \o Take(word, 4)
  ELSE <<131>> \o Take(word, 8)

PingName == <<80, 105, 110, 103>>     \* "Ping"

SipFails(e) ==
  LET h == SipHashBytes(e.msg, e.k0, e.k1) IN
  Tag(e.u8 = h, "uint8-buffer") \cup Tag(e.ch = h, "char-buffer")
  \* the array entry point (the one the name macros use): every byte of the array counts, zero bytes included
  \cup (IF "au8" \in DOMAIN e THEN Tag(e.au8 = h, "uint8-array") ELSE {})
  \cup (IF "ach" \in DOMAIN e THEN Tag(e.ach = h, "char-array") ELSE {})
\* hashes of constant arrays evaluated in constant expressions
SipCtFails(e) ==
  UnionOver(Len(e.rows), LAMBDA i : Tag(e.rows[i].ct = SipHashBytes(e.rows[i].msg, e.k0, e.k1), "compile-time-array"))

NameFails(e) ==
  UnionOver(Len(e.rows), LAMBDA i :
    LET r == e.rows[i] IN
    IF r.kind = "table"
    THEN LET h == TableHash(r.name) IN
         Tag(r.ct = h, "table-hash-compile-time")
         \cup Tag(r.rt = r.ct, "table-hash-ct-vs-rt")
         \cup Tag(Len(r.wire) >= 1 + Len(EncU64(h)) /\ SubSeq(r.wire, 2, 1 + Len(EncU64(h))) = EncU64(h), "table-hash-on-wire")
    ELSE LET h == InterfaceHash(r.name) IN
         Tag(r.ct = h, "interface-hash-compile-time")
         \cup Tag(r.rt = r.ct, "interface-hash-ct-vs-rt")
         \cup Tag(r.sel = Selector(PingName, h, r.sw), "method-selector:" \o r.kind))

EndFails(e) ==
  UnionOver(Len(e.pairs), LAMBDA i :
    Tag(e.pairs[i][2] = Conv(e.op, e.le, e.pairs[i][1]), e.op \o ":" \o e.T))

End32Fails(e) ==
  Tag(e.map = ByteMap(e.op, e.le, 4), "map-not-from-spec")
  \cup Tag(e.bad = <<>>, e.op \o ":" \o e.T)

Fails(e) ==
  IF e.e \in {"UB", "Crash", "Exc", "Timeout", "BadCmd", "Race"} THEN {"abnormal"}
  ELSE CASE e.e = "SIP" -> SipFails(e)
         [] e.e = "SIPCT" -> SipCtFails(e)
         [] e.e = "NAMES" -> NameFails(e)
         [] e.e = "END" -> EndFails(e)
         [] e.e = "END32" -> End32Fails(e)
         [] OTHER -> {}

Init == l = 1 /\ nrej = 0
Step ==
  /\ l <= Len(Log)
  /\ LET e == Log[l]
         why == Fails(e)
         ok == why = {} IN
     /\ (IF ok THEN TRUE ELSE PrintT("REJECT " \o ToJson([l |-> l, idx |-> e.idx, e |-> e.e, why |-> why])))
     /\ nrej' = IF ok THEN nrej ELSE nrej + 1
  /\ l' = l + 1
Done == l = Len(Log) + 1 /\ PrintT("DONE " \o ToJson([n |-> Len(Log), nrej |-> nrej])) /\ UNCHANGED vars
Next == Step \/ Done
Spec == Init /\ [][Next]_vars
=============================================================================
