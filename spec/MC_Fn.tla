------------------------------- MODULE MC_Fn -------------------------------
(***************************************************************************)
(* Self-checks of the functional specifications: SipHash-2-4 against the   *)
(* reference vectors of the paper's reference implementation (key          *)
(* 00..0f, messages 00..(n-1)), and the theorems of Endian.tla.            *)
(***************************************************************************)
EXTENDS SipHash, Endian, TLC, FiniteSets

\* first reference vectors (little-endian bytes) of vectors_sip64 in the SipHash reference code
RefVectors == <<
  <<49, 14, 14, 221, 71, 219, 111, 114>>,      \* len 0
  <<253, 103, 220, 147, 197, 57, 248, 116>>,   \* len 1
  <<90, 79, 169, 217, 9, 128, 108, 13>>,       \* len 2
  <<45, 126, 251, 215, 150, 102, 103, 133>>,   \* len 3
  <<183, 135, 113, 39, 224, 148, 39, 207>>,    \* len 4
  <<141, 166, 153, 205, 100, 85, 118, 24>>,    \* len 5
  <<206, 227, 254, 88, 110, 70, 201, 203>>,    \* len 6
  <<55, 209, 1, 139, 245, 0, 2, 171>>,         \* len 7
  <<98, 36, 147, 154, 121, 245, 245, 147>>,    \* len 8
  <<176, 228, 169, 11, 223, 130, 0, 158>>,     \* len 9
  <<243, 185, 221, 148, 197, 187, 93, 122>>,   \* len 10
  <<167, 173, 107, 34, 70, 47, 179, 244>>,     \* len 11
  <<251, 229, 14, 134, 188, 143, 30, 117>>,    \* len 12
  <<144, 61, 132, 192, 39, 86, 234, 20>>,      \* len 13
  <<238, 242, 122, 142, 144, 202, 35, 247>>,   \* len 14
  <<229, 69, 190, 73, 97, 202, 41, 161>>       \* len 15
>>
RefKey0 == <<0, 1, 2, 3, 4, 5, 6, 7>>
RefKey1 == <<8, 9, 10, 11, 12, 13, 14, 15>>

VARIABLE i
Init == i = 0
Next == i < Len(RefVectors) /\ i' = i + 1
Spec == Init /\ [][Next]_i

SipVectors == i > 0 => SipHashBytes([j \in 1..(i - 1) |-> j - 1], RefKey0, RefKey1) = RefVectors[i]

EndianTheorems ==
  \A hostLE \in BOOLEAN, n \in {1, 2, 4, 8}, op \in Ops :
    LET w == [j \in 1..n |-> 16 * j + i] IN
    /\ Conv(Inverse(op), hostLE, Conv(op, hostLE, w)) = w              \* To and From are mutual inverses
    /\ Conv(op, hostLE, Conv(op, hostLE, w)) = w                       \* each is an involution
    /\ Conv(op, TRUE, w) = (IF IsLittleOp(op) THEN w ELSE Reverse(w))  \* little-endian host
    /\ Conv(op, FALSE, w) = (IF IsLittleOp(op) THEN Reverse(w) ELSE w) \* big-endian host
    /\ Conv(op, hostLE, w) = [j \in 1..n |-> w[ByteMap(op, hostLE, n)[j]]]
=============================================================================
