---- MODULE Gen_Life_TTrace_1790897621 ----
EXTENDS Sequences, TLCExt, Toolbox, Gen_Life, Naturals, TLC

_expression ==
    LET Gen_Life_TEExpression == INSTANCE Gen_Life_TEExpression
    IN Gen_Life_TEExpression!expression
----

_trace ==
    LET Gen_Life_TETrace == INSTANCE Gen_Life_TETrace
    IN Gen_Life_TETrace!trace
----

_inv ==
    ~(
        TLCGet("level") = Len(_TETrace)
        /\
        st = (<<[e |-> TRUE], "none", "none">>)
        /\
        hist = (<<[op |-> "new_empty", o |-> 0]>>)
    )
----

_init ==
    /\ hist = _TETrace[1].hist
    /\ st = _TETrace[1].st
----

_next ==
    /\ \E i,j \in DOMAIN _TETrace:
        /\ \/ /\ j = i + 1
              /\ i = TLCGet("level")
        /\ hist  = _TETrace[i].hist
        /\ hist' = _TETrace[j].hist
        /\ st  = _TETrace[i].st
        /\ st' = _TETrace[j].st

\* Uncomment the ASSUME below to write the states of the error trace
\* to the given file in Json format. Note that you can pass any tuple
\* to `JsonSerialize`. For example, a sub-sequence of _TETrace.
    \* ASSUME
    \*     LET J == INSTANCE Json
    \*         IN J!JsonSerialize("Gen_Life_TTrace_1790897621.json", _TETrace)

=============================================================================

 Note that you can extract this module `Gen_Life_TEExpression`
  to a dedicated file to reuse `expression` (the module in the 
  dedicated `Gen_Life_TEExpression.tla` file takes precedence 
  over the module `Gen_Life_TEExpression` below).

---- MODULE Gen_Life_TEExpression ----
EXTENDS Sequences, TLCExt, Toolbox, Gen_Life, Naturals, TLC

expression == 
    [
        \* To hide variables of the `Gen_Life` spec from the error trace,
        \* remove the variables below.  The trace will be written in the order
        \* of the fields of this record.
        hist |-> hist
        ,st |-> st
        
        \* Put additional constant-, state-, and action-level expressions here:
        \* ,_stateNumber |-> _TEPosition
        \* ,_histUnchanged |-> hist = hist'
        
        \* Format the `hist` variable as Json value.
        \* ,_histJson |->
        \*     LET J == INSTANCE Json
        \*     IN J!ToJson(hist)
        
        \* Lastly, you may build expressions over arbitrary sets of states by
        \* leveraging the _TETrace operator.  For example, this is how to
        \* count the number of times a spec variable changed up to the current
        \* state in the trace.
        \* ,_histModCount |->
        \*     LET F[s \in DOMAIN _TETrace] ==
        \*         IF s = 1 THEN 0
        \*         ELSE IF _TETrace[s].hist # _TETrace[s-1].hist
        \*             THEN 1 + F[s-1] ELSE F[s-1]
        \*     IN F[_TEPosition - 1]
    ]

=============================================================================



Parsing and semantic processing can take forever if the trace below is long.
 In this case, it is advised to uncomment the module below to deserialize the
 trace from a generated binary file.

\*
\*---- MODULE Gen_Life_TETrace ----
\*EXTENDS IOUtils, Gen_Life, TLC
\*
\*trace == IODeserialize("Gen_Life_TTrace_1790897621.bin", TRUE)
\*
\*=============================================================================
\*

---- MODULE Gen_Life_TETrace ----
EXTENDS Gen_Life, TLC

trace == 
    <<
    ([st |-> <<"none", "none", "none">>,hist |-> <<>>]),
    ([st |-> <<[e |-> TRUE], "none", "none">>,hist |-> <<[op |-> "new_empty", o |-> 0]>>])
    >>
----


=============================================================================

---- CONFIG Gen_Life_TTrace_1790897621 ----
CONSTANTS
    Machine = "optional"
    Depth = 2
    Emitting = FALSE

INVARIANT
    _inv

CHECK_DEADLOCK
    \* CHECK_DEADLOCK off because of PROPERTY or INVARIANT above.
    FALSE

INIT
    _init

NEXT
    _next

CONSTANT
    _TETrace <- _trace

ALIAS
    _expression
=============================================================================
\* Generated on Thu Oct 01 23:33:43 UTC 2026