---- MODULE MC_IO_TTrace_1790894885 ----
EXTENDS Sequences, TLCExt, MC_IO, Toolbox, Naturals, TLC

_expression ==
    LET MC_IO_TEExpression == INSTANCE MC_IO_TEExpression
    IN MC_IO_TEExpression!expression
----

_trace ==
    LET MC_IO_TETrace == INSTANCE MC_IO_TETrace
    IN MC_IO_TETrace!trace
----

_inv ==
    ~(
        TLCGet("level") = Len(_TETrace)
        /\
        last = (([kind |-> "buffer", b |-> FALSE] :> [w |-> "w1", inner |-> TRUE, st |-> 0] @@ [kind |-> "buffer", b |-> TRUE] :> [w |-> "w1", inner |-> FALSE, st |-> 13] @@ [kind |-> "pedantic", b |-> FALSE] :> [w |-> "w1", inner |-> TRUE, st |-> 13] @@ [kind |-> "pedantic", b |-> TRUE] :> [w |-> "w1", inner |-> FALSE, st |-> 13] @@ [kind |-> "sstream", b |-> FALSE] :> [w |-> "w1", inner |-> TRUE, st |-> 0] @@ [kind |-> "sstream", b |-> TRUE] :> [w |-> "w1", inner |-> FALSE, st |-> 13] @@ [kind |-> "fd", b |-> FALSE] :> [w |-> "w1", inner |-> TRUE, st |-> 0] @@ [kind |-> "fd", b |-> TRUE] :> [w |-> "w1", inner |-> FALSE, st |-> 13] @@ [kind |-> "constexpr", b |-> FALSE] :> [w |-> "w1", inner |-> TRUE, st |-> 13] @@ [kind |-> "constexpr", b |-> TRUE] :> [w |-> "w1", inner |-> FALSE, st |-> 13]))
        /\
        steps = (2)
        /\
        objs = (([kind |-> "buffer", b |-> FALSE] :> [kind |-> "buffer", b |-> FALSE, lim |-> 0, fk |-> 0, idx |-> 0, out |-> <<>>, ub |-> TRUE, dead |-> FALSE, cap |-> 0, fe |-> 16, nc |-> 2] @@ [kind |-> "buffer", b |-> TRUE] :> [kind |-> "buffer", b |-> TRUE, lim |-> 0, fk |-> 0, idx |-> 0, out |-> <<>>, ub |-> FALSE, dead |-> FALSE, cap |-> 0, fe |-> 16, nc |-> 0] @@ [kind |-> "pedantic", b |-> FALSE] :> [kind |-> "pedantic", b |-> FALSE, lim |-> 0, fk |-> 0, idx |-> 0, out |-> <<>>, ub |-> FALSE, dead |-> TRUE, cap |-> 0, fe |-> 16, nc |-> 2] @@ [kind |-> "pedantic", b |-> TRUE] :> [kind |-> "pedantic", b |-> TRUE, lim |-> 0, fk |-> 0, idx |-> 0, out |-> <<>>, ub |-> FALSE, dead |-> FALSE, cap |-> 0, fe |-> 16, nc |-> 0] @@ [kind |-> "sstream", b |-> FALSE] :> [kind |-> "sstream", b |-> FALSE, lim |-> 0, fk |-> 0, idx |-> 0, out |-> <<0, 0>>, ub |-> FALSE, dead |-> FALSE, cap |-> 0, fe |-> 16, nc |-> 2] @@ [kind |-> "sstream", b |-> TRUE] :> [kind |-> "sstream", b |-> TRUE, lim |-> 0, fk |-> 0, idx |-> 0, out |-> <<>>, ub |-> FALSE, dead |-> FALSE, cap |-> 0, fe |-> 16, nc |-> 0] @@ [kind |-> "fd", b |-> FALSE] :> [kind |-> "fd", b |-> FALSE, lim |-> 0, fk |-> 0, idx |-> 0, out |-> <<0>>, ub |-> FALSE, dead |-> FALSE, cap |-> 0, fe |-> 16, nc |-> 1] @@ [kind |-> "fd", b |-> TRUE] :> [kind |-> "fd", b |-> TRUE, lim |-> 0, fk |-> 0, idx |-> 0, out |-> <<>>, ub |-> FALSE, dead |-> FALSE, cap |-> 0, fe |-> 16, nc |-> 0] @@ [kind |-> "constexpr", b |-> FALSE] :> [kind |-> "constexpr", b |-> FALSE, lim |-> 0, fk |-> 0, idx |-> 0, out |-> <<>>, ub |-> FALSE, dead |-> TRUE, cap |-> 0, fe |-> 16, nc |-> 2] @@ [kind |-> "constexpr", b |-> TRUE] :> [kind |-> "constexpr", b |-> TRUE, lim |-> 0, fk |-> 0, idx |-> 0, out |-> <<>>, ub |-> FALSE, dead |-> FALSE, cap |-> 0, fe |-> 16, nc |-> 0]))
    )
----

_init ==
    /\ steps = _TETrace[1].steps
    /\ last = _TETrace[1].last
    /\ objs = _TETrace[1].objs
----

_next ==
    /\ \E i,j \in DOMAIN _TETrace:
        /\ \/ /\ j = i + 1
              /\ i = TLCGet("level")
        /\ steps  = _TETrace[i].steps
        /\ steps' = _TETrace[j].steps
        /\ last  = _TETrace[i].last
        /\ last' = _TETrace[j].last
        /\ objs  = _TETrace[i].objs
        /\ objs' = _TETrace[j].objs

\* Uncomment the ASSUME below to write the states of the error trace
\* to the given file in Json format. Note that you can pass any tuple
\* to `JsonSerialize`. For example, a sub-sequence of _TETrace.
    \* ASSUME
    \*     LET J == INSTANCE Json
    \*         IN J!JsonSerialize("MC_IO_TTrace_1790894885.json", _TETrace)

=============================================================================

 Note that you can extract this module `MC_IO_TEExpression`
  to a dedicated file to reuse `expression` (the module in the 
  dedicated `MC_IO_TEExpression.tla` file takes precedence 
  over the module `MC_IO_TEExpression` below).

---- MODULE MC_IO_TEExpression ----
EXTENDS Sequences, TLCExt, MC_IO, Toolbox, Naturals, TLC

expression == 
    [
        \* To hide variables of the `MC_IO` spec from the error trace,
        \* remove the variables below.  The trace will be written in the order
        \* of the fields of this record.
        steps |-> steps
        ,last |-> last
        ,objs |-> objs
        
        \* Put additional constant-, state-, and action-level expressions here:
        \* ,_stateNumber |-> _TEPosition
        \* ,_stepsUnchanged |-> steps = steps'
        
        \* Format the `steps` variable as Json value.
        \* ,_stepsJson |->
        \*     LET J == INSTANCE Json
        \*     IN J!ToJson(steps)
        
        \* Lastly, you may build expressions over arbitrary sets of states by
        \* leveraging the _TETrace operator.  For example, this is how to
        \* count the number of times a spec variable changed up to the current
        \* state in the trace.
        \* ,_stepsModCount |->
        \*     LET F[s \in DOMAIN _TETrace] ==
        \*         IF s = 1 THEN 0
        \*         ELSE IF _TETrace[s].steps # _TETrace[s-1].steps
        \*             THEN 1 + F[s-1] ELSE F[s-1]
        \*     IN F[_TEPosition - 1]
    ]

=============================================================================



Parsing and semantic processing can take forever if the trace below is long.
 In this case, it is advised to uncomment the module below to deserialize the
 trace from a generated binary file.

\*
\*---- MODULE MC_IO_TETrace ----
\*EXTENDS IOUtils, MC_IO, TLC
\*
\*trace == IODeserialize("MC_IO_TTrace_1790894885.bin", TRUE)
\*
\*=============================================================================
\*

---- MODULE MC_IO_TETrace ----
EXTENDS MC_IO, TLC

trace == 
    <<
    ([last |-> ([kind |-> "buffer", b |-> FALSE] :> <<>> @@ [kind |-> "buffer", b |-> TRUE] :> <<>> @@ [kind |-> "pedantic", b |-> FALSE] :> <<>> @@ [kind |-> "pedantic", b |-> TRUE] :> <<>> @@ [kind |-> "sstream", b |-> FALSE] :> <<>> @@ [kind |-> "sstream", b |-> TRUE] :> <<>> @@ [kind |-> "fd", b |-> FALSE] :> <<>> @@ [kind |-> "fd", b |-> TRUE] :> <<>> @@ [kind |-> "constexpr", b |-> FALSE] :> <<>> @@ [kind |-> "constexpr", b |-> TRUE] :> <<>>),steps |-> 0,objs |-> ([kind |-> "buffer", b |-> FALSE] :> [kind |-> "buffer", b |-> FALSE, lim |-> 0, fk |-> 0, idx |-> 0, out |-> <<>>, ub |-> FALSE, dead |-> FALSE, cap |-> 0, fe |-> 16, nc |-> 0] @@ [kind |-> "buffer", b |-> TRUE] :> [kind |-> "buffer", b |-> TRUE, lim |-> 0, fk |-> 0, idx |-> 0, out |-> <<>>, ub |-> FALSE, dead |-> FALSE, cap |-> 0, fe |-> 16, nc |-> 0] @@ [kind |-> "pedantic", b |-> FALSE] :> [kind |-> "pedantic", b |-> FALSE, lim |-> 0, fk |-> 0, idx |-> 0, out |-> <<>>, ub |-> FALSE, dead |-> FALSE, cap |-> 0, fe |-> 16, nc |-> 0] @@ [kind |-> "pedantic", b |-> TRUE] :> [kind |-> "pedantic", b |-> TRUE, lim |-> 0, fk |-> 0, idx |-> 0, out |-> <<>>, ub |-> FALSE, dead |-> FALSE, cap |-> 0, fe |-> 16, nc |-> 0] @@ [kind |-> "sstream", b |-> FALSE] :> [kind |-> "sstream", b |-> FALSE, lim |-> 0, fk |-> 0, idx |-> 0, out |-> <<>>, ub |-> FALSE, dead |-> FALSE, cap |-> 0, fe |-> 16, nc |-> 0] @@ [kind |-> "sstream", b |-> TRUE] :> [kind |-> "sstream", b |-> TRUE, lim |-> 0, fk |-> 0, idx |-> 0, out |-> <<>>, ub |-> FALSE, dead |-> FALSE, cap |-> 0, fe |-> 16, nc |-> 0] @@ [kind |-> "fd", b |-> FALSE] :> [kind |-> "fd", b |-> FALSE, lim |-> 0, fk |-> 0, idx |-> 0, out |-> <<>>, ub |-> FALSE, dead |-> FALSE, cap |-> 0, fe |-> 16, nc |-> 0] @@ [kind |-> "fd", b |-> TRUE] :> [kind |-> "fd", b |-> TRUE, lim |-> 0, fk |-> 0, idx |-> 0, out |-> <<>>, ub |-> FALSE, dead |-> FALSE, cap |-> 0, fe |-> 16, nc |-> 0] @@ [kind |-> "constexpr", b |-> FALSE] :> [kind |-> "constexpr", b |-> FALSE, lim |-> 0, fk |-> 0, idx |-> 0, out |-> <<>>, ub |-> FALSE, dead |-> FALSE, cap |-> 0, fe |-> 16, nc |-> 0] @@ [kind |-> "constexpr", b |-> TRUE] :> [kind |-> "constexpr", b |-> TRUE, lim |-> 0, fk |-> 0, idx |-> 0, out |-> <<>>, ub |-> FALSE, dead |-> FALSE, cap |-> 0, fe |-> 16, nc |-> 0])]),
    ([last |-> ([kind |-> "buffer", b |-> FALSE] :> [w |-> "skipw", inner |-> TRUE, st |-> 0] @@ [kind |-> "buffer", b |-> TRUE] :> [w |-> "skipw", inner |-> FALSE, st |-> 13] @@ [kind |-> "pedantic", b |-> FALSE] :> [w |-> "skipw", inner |-> TRUE, st |-> 13] @@ [kind |-> "pedantic", b |-> TRUE] :> [w |-> "skipw", inner |-> FALSE, st |-> 13] @@ [kind |-> "sstream", b |-> FALSE] :> [w |-> "skipw", inner |-> TRUE, st |-> 0] @@ [kind |-> "sstream", b |-> TRUE] :> [w |-> "skipw", inner |-> FALSE, st |-> 13] @@ [kind |-> "fd", b |-> FALSE] :> <<>> @@ [kind |-> "fd", b |-> TRUE] :> <<>> @@ [kind |-> "constexpr", b |-> FALSE] :> [w |-> "skipw", inner |-> TRUE, st |-> 13] @@ [kind |-> "constexpr", b |-> TRUE] :> [w |-> "skipw", inner |-> FALSE, st |-> 13]),steps |-> 1,objs |-> ([kind |-> "buffer", b |-> FALSE] :> [kind |-> "buffer", b |-> FALSE, lim |-> 0, fk |-> 0, idx |-> 0, out |-> <<>>, ub |-> TRUE, dead |-> FALSE, cap |-> 0, fe |-> 16, nc |-> 1] @@ [kind |-> "buffer", b |-> TRUE] :> [kind |-> "buffer", b |-> TRUE, lim |-> 0, fk |-> 0, idx |-> 0, out |-> <<>>, ub |-> FALSE, dead |-> FALSE, cap |-> 0, fe |-> 16, nc |-> 0] @@ [kind |-> "pedantic", b |-> FALSE] :> [kind |-> "pedantic", b |-> FALSE, lim |-> 0, fk |-> 0, idx |-> 0, out |-> <<>>, ub |-> FALSE, dead |-> TRUE, cap |-> 0, fe |-> 16, nc |-> 1] @@ [kind |-> "pedantic", b |-> TRUE] :> [kind |-> "pedantic", b |-> TRUE, lim |-> 0, fk |-> 0, idx |-> 0, out |-> <<>>, ub |-> FALSE, dead |-> FALSE, cap |-> 0, fe |-> 16, nc |-> 0] @@ [kind |-> "sstream", b |-> FALSE] :> [kind |-> "sstream", b |-> FALSE, lim |-> 0, fk |-> 0, idx |-> 0, out |-> <<0>>, ub |-> FALSE, dead |-> FALSE, cap |-> 0, fe |-> 16, nc |-> 1] @@ [kind |-> "sstream", b |-> TRUE] :> [kind |-> "sstream", b |-> TRUE, lim |-> 0, fk |-> 0, idx |-> 0, out |-> <<>>, ub |-> FALSE, dead |-> FALSE, cap |-> 0, fe |-> 16, nc |-> 0] @@ [kind |-> "fd", b |-> FALSE] :> [kind |-> "fd", b |-> FALSE, lim |-> 0, fk |-> 0, idx |-> 0, out |-> <<>>, ub |-> FALSE, dead |-> FALSE, cap |-> 0, fe |-> 16, nc |-> 0] @@ [kind |-> "fd", b |-> TRUE] :> [kind |-> "fd", b |-> TRUE, lim |-> 0, fk |-> 0, idx |-> 0, out |-> <<>>, ub |-> FALSE, dead |-> FALSE, cap |-> 0, fe |-> 16, nc |-> 0] @@ [kind |-> "constexpr", b |-> FALSE] :> [kind |-> "constexpr", b |-> FALSE, lim |-> 0, fk |-> 0, idx |-> 0, out |-> <<>>, ub |-> FALSE, dead |-> TRUE, cap |-> 0, fe |-> 16, nc |-> 1] @@ [kind |-> "constexpr", b |-> TRUE] :> [kind |-> "constexpr", b |-> TRUE, lim |-> 0, fk |-> 0, idx |-> 0, out |-> <<>>, ub |-> FALSE, dead |-> FALSE, cap |-> 0, fe |-> 16, nc |-> 0])]),
    ([last |-> ([kind |-> "buffer", b |-> FALSE] :> [w |-> "w1", inner |-> TRUE, st |-> 0] @@ [kind |-> "buffer", b |-> TRUE] :> [w |-> "w1", inner |-> FALSE, st |-> 13] @@ [kind |-> "pedantic", b |-> FALSE] :> [w |-> "w1", inner |-> TRUE, st |-> 13] @@ [kind |-> "pedantic", b |-> TRUE] :> [w |-> "w1", inner |-> FALSE, st |-> 13] @@ [kind |-> "sstream", b |-> FALSE] :> [w |-> "w1", inner |-> TRUE, st |-> 0] @@ [kind |-> "sstream", b |-> TRUE] :> [w |-> "w1", inner |-> FALSE, st |-> 13] @@ [kind |-> "fd", b |-> FALSE] :> [w |-> "w1", inner |-> TRUE, st |-> 0] @@ [kind |-> "fd", b |-> TRUE] :> [w |-> "w1", inner |-> FALSE, st |-> 13] @@ [kind |-> "constexpr", b |-> FALSE] :> [w |-> "w1", inner |-> TRUE, st |-> 13] @@ [kind |-> "constexpr", b |-> TRUE] :> [w |-> "w1", inner |-> FALSE, st |-> 13]),steps |-> 2,objs |-> ([kind |-> "buffer", b |-> FALSE] :> [kind |-> "buffer", b |-> FALSE, lim |-> 0, fk |-> 0, idx |-> 0, out |-> <<>>, ub |-> TRUE, dead |-> FALSE, cap |-> 0, fe |-> 16, nc |-> 2] @@ [kind |-> "buffer", b |-> TRUE] :> [kind |-> "buffer", b |-> TRUE, lim |-> 0, fk |-> 0, idx |-> 0, out |-> <<>>, ub |-> FALSE, dead |-> FALSE, cap |-> 0, fe |-> 16, nc |-> 0] @@ [kind |-> "pedantic", b |-> FALSE] :> [kind |-> "pedantic", b |-> FALSE, lim |-> 0, fk |-> 0, idx |-> 0, out |-> <<>>, ub |-> FALSE, dead |-> TRUE, cap |-> 0, fe |-> 16, nc |-> 2] @@ [kind |-> "pedantic", b |-> TRUE] :> [kind |-> "pedantic", b |-> TRUE, lim |-> 0, fk |-> 0, idx |-> 0, out |-> <<>>, ub |-> FALSE, dead |-> FALSE, cap |-> 0, fe |-> 16, nc |-> 0] @@ [kind |-> "sstream", b |-> FALSE] :> [kind |-> "sstream", b |-> FALSE, lim |-> 0, fk |-> 0, idx |-> 0, out |-> <<0, 0>>, ub |-> FALSE, dead |-> FALSE, cap |-> 0, fe |-> 16, nc |-> 2] @@ [kind |-> "sstream", b |-> TRUE] :> [kind |-> "sstream", b |-> TRUE, lim |-> 0, fk |-> 0, idx |-> 0, out |-> <<>>, ub |-> FALSE, dead |-> FALSE, cap |-> 0, fe |-> 16, nc |-> 0] @@ [kind |-> "fd", b |-> FALSE] :> [kind |-> "fd", b |-> FALSE, lim |-> 0, fk |-> 0, idx |-> 0, out |-> <<0>>, ub |-> FALSE, dead |-> FALSE, cap |-> 0, fe |-> 16, nc |-> 1] @@ [kind |-> "fd", b |-> TRUE] :> [kind |-> "fd", b |-> TRUE, lim |-> 0, fk |-> 0, idx |-> 0, out |-> <<>>, ub |-> FALSE, dead |-> FALSE, cap |-> 0, fe |-> 16, nc |-> 0] @@ [kind |-> "constexpr", b |-> FALSE] :> [kind |-> "constexpr", b |-> FALSE, lim |-> 0, fk |-> 0, idx |-> 0, out |-> <<>>, ub |-> FALSE, dead |-> TRUE, cap |-> 0, fe |-> 16, nc |-> 2] @@ [kind |-> "constexpr", b |-> TRUE] :> [kind |-> "constexpr", b |-> TRUE, lim |-> 0, fk |-> 0, idx |-> 0, out |-> <<>>, ub |-> FALSE, dead |-> FALSE, cap |-> 0, fe |-> 16, nc |-> 0])])
    >>
----


=============================================================================

---- CONFIG MC_IO_TTrace_1790894885 ----
CONSTANTS
    Side = "w"
    MaxLen = 3
    MaxLim = 4
    MaxSteps = 3

INVARIANT
    _inv

CHECK_DEADLOCK
    \* CHECK_DEADLOCK off because of PROPERTY or INVARIANT above.
    FALSE

INIT
    _init

NEXT
    _next

CONSTANT
    _TETrace <- _trace

ALIAS
    _expression
=============================================================================
\* Generated on Thu Oct 01 22:48:07 UTC 2026