--------------------------------- MODULE Rpc ---------------------------------
(***************************************************************************)
(* The RPC layer (C14): SimpleMethodSender writes the method selector and  *)
(* then the argument tuple and reads the return value; the dispatcher      *)
(* reads the selector, looks up the bound handler, reads the arguments,    *)
(* calls the handler and writes its return value.  Selectors are           *)
(* SipHash-2-4 of the method name keyed with the interface hash            *)
(* (SipHash.tla), or given explicitly (NOP_METHOD_SEL).                    *)
(*                                                                         *)
(* Interface descriptor: [name, width, methods : sequence of               *)
(*   [name, args (tuple schema), ret (schema), bound, sel?]]               *)
(***************************************************************************)
EXTENDS Wire, SipHash

E_Method == 10     \* InvalidInterfaceMethod

SelSchema(I) == [k |-> "int", w |-> I.width, s |-> FALSE]
SelOfName(I, m) == IF "sel" \in DOMAIN m THEN m.sel ELSE Selector(m.name, InterfaceHash(I.name), I.width)
\* A *prepared* interface carries its hash and the selector of every method (computed once: SipHash is costly)
Prepare(I) == [name |-> I.name, namestr |-> (IF "namestr" \in DOMAIN I THEN I.namestr ELSE ""), width |-> I.width,
               methods |-> I.methods, hash |-> InterfaceHash(I.name),
               sels |-> [i \in 1..Len(I.methods) |-> SelOfName(I, I.methods[i])]]
MethodIndex(I, m) == CHOOSE i \in 1..Len(I.methods) : I.methods[i] = m
SelOf(I, m) == I.sels[MethodIndex(I, m)]
Request(I, m, args) == Enc(SelSchema(I), SelOf(I, m)) \o Enc(m.args, args)

\* Invoke accepts arguments of conforming types: an integral argument of another width or signedness is converted
\* to the declared parameter type (the usual C++ conversion: sign- or zero-extension of the caller's value), and it
\* is the declared type that travels.  M.cargs[name], when present, is the tuple schema of the caller's types.
CallerArgs(M, name) == IF "cargs" \in DOMAIN M /\ name \in DOMAIN M.cargs THEN M.cargs[name] ELSE M.args
ConvWord(w, from, to) ==
  IF from.k = "int" /\ to.k = "int" /\ from.w < to.w THEN (IF from.s THEN SignExt(w, to.w) ELSE ZeroExt(w, to.w)) ELSE w
AsDeclared(M, name, args) ==
  LET ca == CallerArgs(M, name) IN
  IF ca = M.args THEN args
  ELSE [m |-> [i \in 1..Len(M.args.m) |-> ConvWord(args.m[i], ca.m[i], M.args.m[i])]]
\* a method declared to return void has no reply: Invoke succeeds as soon as the request is written
ReturnsVoid(M) == M.ret.k = "void"

\* index of the bound method with the given selector, 0 if none
BoundIndex(I, sel) == IF \E i \in 1..Len(I.methods) : I.methods[i].bound /\ I.sels[i] = sel
                      THEN CHOOSE i \in 1..Len(I.methods) : I.methods[i].bound /\ I.sels[i] = sel ELSE 0

(* What the dispatcher must do with the request bytes `bs`:                  *)
(*   [ok |-> FALSE, errs, used]            no handler runs, nothing is sent  *)
(*   [ok |-> TRUE, h, args, used]          handler h runs once with args     *)
\* (viw: the width of the class a variant index may use - format.md says INT64, the decoder accepts INT32; that
\* disagreement is C04's recorded finding, so the statements below hold if they hold under either reading)
SrcW(bs, viw) == [bs |-> bs, ht |-> <<>>, viw |-> viw]
DispatchW(I, bs, viw) ==
  LET d1 == Dec(SelSchema(I), SrcW(bs, viw), 0, Inf) IN
  IF ~d1.ok THEN [ok |-> FALSE, errs |-> d1.errs, used |-> d1.at]
  ELSE LET h == BoundIndex(I, d1.v) IN
  IF h = 0 THEN [ok |-> FALSE, errs |-> {E_Method}, used |-> d1.pos]
  ELSE LET d2 == Dec(I.methods[h].args, SrcW(bs, viw), d1.pos, Inf) IN
  IF ~d2.ok THEN [ok |-> FALSE, errs |-> d2.errs, used |-> d2.at]
  ELSE [ok |-> TRUE, h |-> h, args |-> d2.v, used |-> d2.pos]
Dispatch(I, bs) == DispatchW(I, bs, VarIndexWidth)

\* ---- acceptance of one recorded call (used by TrRpc and, for in-thread traffic, by TrThreads) ----------------
Has(r, f) == f \in DOMAIN r
Tag(cond, tag) == IF cond THEN {} ELSE {tag}
\* descriptor methods are keyed by the call name used in the command (several call names may share a method)
InSeq(x, s) == \E j \in 1..Len(s) : s[j] = x
MethodOf(I, name) == I.methods[CHOOSE i \in 1..Len(I.methods) : InSeq(name, I.methods[i].calls)]
NameStr(I, h) == I.methods[h].label
MapErr(errs) == {IF x = E_Src THEN 12 ELSE x : x \in errs}

\* C10 at the RPC layer: a primitive of one of the four pipe ends failed with code e. On the caller's side
\* (request writer, reply reader) Invoke must return that code; on the dispatcher's side (request reader, reply
\* writer) the dispatcher must return it, and a failed request read runs no handler and sends nothing.
FaultFails(c) ==
  Tag(~c.caf, "call-after-failure:" \o c.fault.on)
  \cup (IF c.fault.on \in {"reqw", "repr"} THEN Tag(c.st_invoke = c.fault.e, "sender-status:" \o c.fault.on)
        ELSE Tag(c.dstatus = c.fault.e, "dispatcher-status:" \o c.fault.on))
  \cup (IF c.fault.on = "reqr" THEN Tag(c.hlog = <<>> /\ c.rep = <<>>, "handler-or-reply-after-failed-request-read") ELSE {})
  \cup (IF c.fault.on = "repw" THEN Tag(Len(c.hlog) = 1, "handler-count") ELSE {})

\* the dispatch table's own statements: the selector of every declared method (Method::Selector and the interface's
\* lookup by index) is the specified one, and Match() is true exactly for the bound methods
LabelIndex(I, label) == CHOOSE i \in 1..Len(I.methods) : I.methods[i].label = label
SelsFail(I, e) ==
  (IF Has(e, "iname") /\ Has(I, "namestr") THEN Tag(e.iname = I.namestr, "interface-name") ELSE {})
  \cup UNION {LET r == e.sels[j]
                 i == LabelIndex(I, r.m) IN
             Tag(r.sel = ZeroExt(I.sels[i], 8), "method-selector:" \o r.m)
             \cup Tag(r.isel = r.sel, "selector-by-index:" \o r.m)
             \cup Tag(r.match = I.methods[i].bound, "bindings-match:" \o r.m) : j \in 1..Len(e.sels)}

\* C14 when something fails underneath (a fault injected on one of the pipe ends): a dispatcher pass that reports
\* success has run exactly one handler and sent its whole return value - "each successful call ... produces exactly one
\* reply" - and a caller that reports success holds the handler's return value
FaultedCallFailsW(I, c, viw) ==
  LET D == DispatchW(I, c.seen, viw) IN
  (IF c.dstatus = 0
   THEN Tag(D.ok /\ Len(c.hlog) = 1 /\ c.rep = Enc(I.methods[D.h].ret, c.hlog[1].ret), "dispatcher-success-without-whole-reply")
   ELSE {})
  \cup (IF c.st_invoke = 0 /\ ~ReturnsVoid(MethodOf(I, c.m))
        THEN Tag(Len(c.hlog) = 1 /\ Has(c, "ret") /\ c.ret = c.hlog[1].ret, "invoke-success-without-handler-return")
        ELSE {})

EitherReading(F(_)) == LET f == F(VarIndexWidth) IN IF f = {} THEN {} ELSE IF F(4) = {} THEN {} ELSE f
FaultedCallFails(I, c) == EitherReading(LAMBDA w : FaultedCallFailsW(I, c, w))

CallFailsW(I, c, viw) ==
  LET raw == c.m = "Raw"
      tampered == raw \/ c.seen # c.req
      D == DispatchW(I, c.seen, viw) IN
  \* over real pipes the dispatcher drops the connection as soon as it refuses a request: the caller may then fail
  \* while still writing its arguments, and what travelled is a prefix of the request (never anything else)
  (IF raw THEN {}
   ELSE LET full == Request(I, MethodOf(I, c.m), AsDeclared(MethodOf(I, c.m), c.m, c.args)) IN
        Tag(IF Has(c, "pipe") /\ ~D.ok THEN IsPrefixOf(c.req, full) ELSE c.req = full, "request-framing"))
  \cup
  (IF ~D.ok
   THEN Tag(c.dstatus \in MapErr(D.errs), "dispatch-status")
        \cup Tag(c.hlog = <<>>, "handler-ran-on-error")
        \cup Tag(c.rep = <<>>, "reply-sent-on-error")
        \cup (IF raw THEN {}
              ELSE IF ReturnsVoid(MethodOf(I, c.m)) THEN Tag(c.st_invoke = 0, "void-invoke-status")
              ELSE Tag(c.st_invoke # 0, "invoke-succeeded-without-reply"))
   ELSE LET M == I.methods[D.h] IN
        Tag(c.dstatus = 0, "dispatch-status")
        \cup Tag(Len(c.hlog) = 1, "handler-count")
        \cup (IF Len(c.hlog) = 1
              THEN Tag(c.hlog[1].m = M.label, "wrong-handler")
                   \cup Tag(c.hlog[1].args = D.args, "handler-arguments")
                   \cup Tag(c.rep = Enc(M.ret, c.hlog[1].ret), "reply-is-handlers-return")
                   \cup (IF tampered THEN {}
                         ELSE Tag(c.hlog[1].args = AsDeclared(M, c.m, c.args), "arguments-as-sent")
                              \cup Tag(c.st_invoke = 0 /\ Has(c, "ret") /\ c.ret = c.hlog[1].ret, "invoke-result")
                              \cup Tag(c.rep_left = 0, "reply-consumed"))
              ELSE {})
        \cup Tag(c.req_left = Len(c.seen) - D.used, "request-consumed"))
CallFails(I, c) == EitherReading(LAMBDA w : CallFailsW(I, c, w))

=============================================================================
