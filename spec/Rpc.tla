--------------------------------- MODULE Rpc ---------------------------------
(***************************************************************************)
(* The RPC layer (C14): SimpleMethodSender writes the method selector and  *)
(* then the argument tuple and reads the return value; the dispatcher      *)
(* reads the selector, looks up the bound handler, reads the arguments,    *)
(* calls the handler and writes its return value.  Selectors are           *)
(* SipHash-2-4 of the method name keyed with the interface hash            *)
(* (SipHash.tla), or given explicitly (NOP_METHOD_SEL).                    *)
(*                                                                         *)
(* Interface descriptor: [name, width, methods : sequence of               *)
(*   [name, args (tuple schema), ret (schema), bound, sel?]]               *)
(***************************************************************************)
EXTENDS Wire, SipHash

E_Method == 10     \* InvalidInterfaceMethod

SelSchema(I) == [k |-> "int", w |-> I.width, s |-> FALSE]
SelOf(I, m) == IF "sel" \in DOMAIN m THEN m.sel ELSE Selector(m.name, InterfaceHash(I.name), I.width)
Request(I, m, args) == Enc(SelSchema(I), SelOf(I, m)) \o Enc(m.args, args)

\* index of the bound method with the given selector, 0 if none
BoundIndex(I, sel) == IF \E i \in 1..Len(I.methods) : I.methods[i].bound /\ SelOf(I, I.methods[i]) = sel
                      THEN CHOOSE i \in 1..Len(I.methods) : I.methods[i].bound /\ SelOf(I, I.methods[i]) = sel ELSE 0

(* What the dispatcher must do with the request bytes `bs`:                  *)
(*   [ok |-> FALSE, errs, used]            no handler runs, nothing is sent  *)
(*   [ok |-> TRUE, h, args, used]          handler h runs once with args     *)
Dispatch(I, bs) ==
  LET d1 == Dec(SelSchema(I), Src(bs), 0, Inf) IN
  IF ~d1.ok THEN [ok |-> FALSE, errs |-> d1.errs, used |-> d1.at]
  ELSE LET h == BoundIndex(I, d1.v) IN
  IF h = 0 THEN [ok |-> FALSE, errs |-> {E_Method}, used |-> d1.pos]
  ELSE LET d2 == Dec(I.methods[h].args, Src(bs), d1.pos, Inf) IN
  IF ~d2.ok THEN [ok |-> FALSE, errs |-> d2.errs, used |-> d2.at]
  ELSE [ok |-> TRUE, h |-> h, args |-> d2.v, used |-> d2.pos]
=============================================================================
