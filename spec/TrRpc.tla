-------------------------------- MODULE TrRpc --------------------------------
(***************************************************************************)
(* Trace specification for C14.  An RPC event is a sequence of calls on    *)
(* one connection (Invoke -> SimpleMethodSender -> loopback pipes ->       *)
(* SimpleMethodReceiver -> InterfaceBindings -> handler -> reply).  For    *)
(* every call the executor logged the request bytes as sent and as seen by *)
(* the dispatcher (after any tampering), the dispatcher's status, the      *)
(* handler log, the reply bytes, what Invoke returned and what was left in *)
(* both pipes.                                                             *)
(***************************************************************************)
EXTENDS Rpc, Json, IOUtils, TLC

Log == ndJsonDeserialize(IOEnv.TRACE)
Ifaces == JsonDeserialize(IOEnv.IFACES)
VARIABLES l, nrej
vars == <<l, nrej>>
Has(r, f) == f \in DOMAIN r
Tag(cond, tag) == IF cond THEN {} ELSE {tag}
UnionOver(n, F(_)) == UNION {F(i) : i \in 1..n}

\* descriptor methods are keyed by the call name used in the command (several call names may share a method)
InSeq(x, s) == \E j \in 1..Len(s) : s[j] = x
MethodOf(I, name) == I.methods[CHOOSE i \in 1..Len(I.methods) : InSeq(name, I.methods[i].calls)]
NameStr(I, h) == I.methods[h].label
MapErr(errs) == {IF x = E_Src THEN 12 ELSE x : x \in errs}

CallFails(I, c) ==
  LET raw == c.m = "Raw"
      tampered == raw \/ c.seen # c.req
      D == Dispatch(I, c.seen) IN
  (IF raw THEN {} ELSE Tag(c.req = Request(I, MethodOf(I, c.m), c.args), "request-framing"))
  \cup
  (IF ~D.ok
   THEN Tag(c.dstatus \in MapErr(D.errs), "dispatch-status")
        \cup Tag(c.hlog = <<>>, "handler-ran-on-error")
        \cup Tag(c.rep = <<>>, "reply-sent-on-error")
        \cup (IF raw THEN {} ELSE Tag(c.st_invoke # 0, "invoke-succeeded-without-reply"))
   ELSE LET M == I.methods[D.h] IN
        Tag(c.dstatus = 0, "dispatch-status")
        \cup Tag(Len(c.hlog) = 1, "handler-count")
        \cup (IF Len(c.hlog) = 1
              THEN Tag(c.hlog[1].m = M.label, "wrong-handler")
                   \cup Tag(c.hlog[1].args = D.args, "handler-arguments")
                   \cup Tag(c.rep = Enc(M.ret, c.hlog[1].ret), "reply-is-handlers-return")
                   \cup (IF tampered THEN {}
                         ELSE Tag(c.hlog[1].args = c.args, "arguments-as-sent")
                              \cup Tag(c.st_invoke = 0 /\ Has(c, "ret") /\ c.ret = c.hlog[1].ret, "invoke-result")
                              \cup Tag(c.rep_left = 0, "reply-consumed"))
              ELSE {})
        \cup Tag(c.req_left = Len(c.seen) - D.used, "request-consumed"))

Fails(e) ==
  IF e.e \in {"UB", "Crash", "Exc", "Timeout", "BadCmd", "Race"} THEN {"abnormal"}
  ELSE IF e.e # "RPC" THEN {}
  ELSE LET I == Ifaces[e.iface] IN
       Tag((IF e.iface = "calc" THEN e.hash_calc ELSE e.hash_small) = InterfaceHash(I.name), "interface-hash")
       \cup UnionOver(Len(e.calls), LAMBDA i : CallFails(I, e.calls[i]))

Init == l = 1 /\ nrej = 0
Step ==
  /\ l <= Len(Log)
  /\ LET e == Log[l]
         why == Fails(e)
         ok == why = {} IN
     /\ (IF ok THEN TRUE ELSE PrintT("REJECT " \o ToJson([l |-> l, idx |-> e.idx, e |-> e.e, why |-> why])))
     /\ nrej' = IF ok THEN nrej ELSE nrej + 1
  /\ l' = l + 1
Done == l = Len(Log) + 1 /\ PrintT("DONE " \o ToJson([n |-> Len(Log), nrej |-> nrej])) /\ UNCHANGED vars
Next == Step \/ Done
Spec == Init /\ [][Next]_vars
=============================================================================
