-------------------------------- MODULE TrRpc --------------------------------
(***************************************************************************)
(* Trace specification for C14.  An RPC event is a sequence of calls on    *)
(* one connection (Invoke -> SimpleMethodSender -> loopback pipes ->       *)
(* SimpleMethodReceiver -> InterfaceBindings -> handler -> reply).  For    *)
(* every call the executor logged the request bytes as sent and as seen by *)
(* the dispatcher (after any tampering), the dispatcher's status, the      *)
(* handler log, the reply bytes, what Invoke returned and what was left in *)
(* both pipes.  With the pipe transport ("calcpipe") caller and dispatcher *)
(* are two threads connected by real pipes through FdWriter / FdReader;    *)
(* the same per-call statements apply up to the first failed request,      *)
(* after which the dispatcher drops the connection.                        *)
(***************************************************************************)
EXTENDS Rpc, Json, IOUtils, TLC

Log == ndJsonDeserialize(IOEnv.TRACE)
IfacesRaw == JsonDeserialize(IOEnv.IFACES)
Ifaces == [n \in DOMAIN IfacesRaw |-> Prepare(IfacesRaw[n])]     \* constant: evaluated once
VARIABLES l, nrej
vars == <<l, nrej>>
UnionOver(n, F(_)) == UNION {F(i) : i \in 1..n}

Fails(e) ==
  IF e.e \in {"UB", "Crash", "Exc", "Timeout", "BadCmd", "Race"} THEN {"abnormal"}
  ELSE IF e.e # "RPC" THEN {}
  ELSE LET I == Ifaces[e.iface] IN
       Tag((IF e.iface \in {"calc", "calcpipe"} THEN e.hash_calc ELSE e.hash_small) = I.hash, "interface-hash")
       \cup (IF Has(e, "sels") /\ IOEnv.PROP # "C10" THEN SelsFail(I, e) ELSE {})
       \cup UnionOver(Len(e.calls), LAMBDA i :
              LET c == e.calls[i] IN
              IF Has(c, "fault") /\ c.ftrig THEN (IF IOEnv.PROP = "C10" THEN FaultFails(c) ELSE FaultedCallFails(I, c))
              ELSE IF IOEnv.PROP = "C10" THEN {} ELSE CallFails(I, c))

Init == l = 1 /\ nrej = 0
Step ==
  /\ l <= Len(Log)
  /\ LET e == Log[l]
         why == Fails(e)
         ok == why = {} IN
     /\ (IF ok THEN TRUE ELSE PrintT("REJECT " \o ToJson([l |-> l, idx |-> e.idx, e |-> e.e, why |-> why])))
     /\ nrej' = IF ok THEN nrej ELSE nrej + 1
  /\ l' = l + 1
Done == l = Len(Log) + 1 /\ PrintT("DONE " \o ToJson([n |-> Len(Log), nrej |-> nrej])) /\ UNCHANGED vars
Next == Step \/ Done
Spec == Init /\ [][Next]_vars
=============================================================================
