------------------------------ MODULE MC_FdEnv ------------------------------
(***************************************************************************)
(* TLC on FdEnv.tla: every source / sink size, block size and system-call  *)
(* request size up to MaxLen, every choice of the environment (piece       *)
(* sizes, up to MaxIntr consecutive EINTR results, end of file, error) at  *)
(* every system call.                                                      *)
(***************************************************************************)
EXTENDS FdEnv
=============================================================================
