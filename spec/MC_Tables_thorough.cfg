SPECIFICATION Spec
CONSTANTS MaxSteps = 6 Emitting = FALSE
INVARIANT W6
INVARIANT IdsNotReused
INVARIANT Emit
CHECK_DEADLOCK FALSE
