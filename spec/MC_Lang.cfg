SPECIFICATION Spec
CONSTANT MaxLen = 4
INVARIANT W5
CHECK_DEADLOCK FALSE
