----------------------------- MODULE MC_Session -----------------------------
(***************************************************************************)
(* The system at design level: a writing peer appends encodings of values  *)
(* to one byte stream, the transport may be cut after any byte (the sender *)
(* crashing), a reading peer decodes value after value.                    *)
(*   InOrder          (C01) values come back in order and every read       *)
(*                          consumes exactly the bytes of its frame         *)
(*   NoGhostSuccess   (C05) after a cut inside a frame no read of that     *)
(*                          frame (or a later one) succeeds                 *)
(*   ErrorsAreSticky        a reader that has failed does not advance       *)
(* Frames remember schema, value and length (ghost information).           *)
(***************************************************************************)
EXTENDS Wire, Schema

CONSTANTS MaxFrames
U8 == TInt(1, FALSE)  I16 == TInt(2, TRUE)
Pool == <<U8, I16, TStr(1), TVec(U8), TVec(TStr(1)), TOpt(U8), TTup(<<U8, TStr(1)>>), TVar(<<U8, TStr(1)>>),
          TTable(<<0, 0, 0, 0, 0, 0, 0, 0>>, <<TEntry(WordOfNat(0, 8), TRUE, U8), TEntry(WordOfNat(1, 8), TRUE, TStr(1))>>)>>
ValsOf(i) == FirstN(SmallVals(Pool[i], 1), 3)

VARIABLES chan,     \* bytes delivered to the reader so far
          frames,   \* ghost: sequence of [s, v, len] written
          cut,      \* TRUE once the transport has been cut (chan may end inside a frame)
          rpos, nread, failed, got
vars == <<chan, frames, cut, rpos, nread, failed, got>>

Init == chan = <<>> /\ frames = <<>> /\ cut = FALSE /\ rpos = 0 /\ nread = 0 /\ failed = FALSE /\ got = <<>>

WriteValue ==
  /\ ~cut /\ Len(frames) < MaxFrames
  /\ \E i \in 1..Len(Pool) : \E j \in 1..Len(ValsOf(i)) :
       LET v == ValsOf(i)[j]
           bytes == Enc(Pool[i], v) IN
       /\ chan' = chan \o bytes
       /\ frames' = Append(frames, [s |-> i, v |-> v, len |-> Len(bytes)])
  /\ UNCHANGED <<cut, rpos, nread, failed, got>>
\* the sender crashes / the transport closes after byte k of what was written
CutAt ==
  /\ ~cut /\ Len(chan) > 0 /\ nread = 0
  /\ \E k \in 0..(Len(chan) - 1) : chan' = Take(chan, k)
  /\ cut' = TRUE
  /\ UNCHANGED <<frames, rpos, nread, failed, got>>
ReadValue ==
  /\ ~failed /\ nread < Len(frames)
  /\ LET f == frames[nread + 1]
         d == Dec(Pool[f.s], Src(chan), rpos, Inf) IN
     IF d.ok
     THEN /\ rpos' = d.pos /\ got' = Append(got, d.v) /\ nread' = nread + 1 /\ UNCHANGED failed
     ELSE /\ failed' = TRUE /\ UNCHANGED <<rpos, got, nread>>
  /\ UNCHANGED <<chan, frames, cut>>
Next == WriteValue \/ CutAt \/ ReadValue
Spec == Init /\ [][Next]_vars

RECURSIVE FrameEnd(_)
FrameEnd(n) == IF n = 0 THEN 0 ELSE FrameEnd(n - 1) + frames[n].len
InOrder ==
  /\ \A i \in 1..nread : got[i] = frames[i].v
  /\ rpos = FrameEnd(nread)
NoGhostSuccess == \A i \in 1..nread : FrameEnd(i) <= Len(chan)      \* only frames that arrived completely are ever decoded
ErrorsAreSticky == [][failed => (rpos' = rpos /\ nread' = nread)]_vars
=============================================================================
