SPECIFICATION Spec
CONSTANT Depth = 0
INVARIANT W1
INVARIANT W2
INVARIANT W2f
INVARIANT W3
INVARIANT W4
INVARIANT W4b
CHECK_DEADLOCK FALSE
INVARIANT EncMFaithful
