------------------------------ MODULE TrThreads ------------------------------
(***************************************************************************)
(* Trace specification for C19.  A TL event is either a lock-step run (one *)
(* global sequence of steps, the schedule chosen by TLC) or a free-running *)
(* run (one sequence per thread).  Threads are independent in the model,   *)
(* so a run is a behaviour iff every thread's projection is a behaviour of *)
(* the sequential machine; for lock-step runs the global fold over the     *)
(* shared tl function checks the same thing plus isolation directly.       *)
(* Codec steps on the thread's own objects must produce the documented     *)
(* bytes and read back the value (no hidden shared state).  Data races are *)
(* sensed by ThreadSanitizer: a report is a Race event no action accepts.  *)
(***************************************************************************)
EXTENDS Threads, Rpc, Json, IOUtils

Log == ndJsonDeserialize(IOEnv.TRACE)
Types == JsonDeserialize(IOEnv.TYPES)
IfacesRaw == JsonDeserialize(IOEnv.IFACES)
Ifaces == [n \in DOMAIN IfacesRaw |-> Prepare(IfacesRaw[n])]     \* constant: evaluated once
VARIABLES l, nrej
vars == <<l, nrej>>
UnionOver(n, F(_)) == UNION {F(i) : i \in 1..n}
NSlots == 9       \* three index / type combinations used by the model's programs, the default slot, a (void, 1) slot and a type slot,
                  \* and three slots whose value type owns heap storage (string, vector, unique_ptr)
IOF == INSTANCE IOFold       \* reader / writer call sequences run inside a thread are judged as in TrIO

CodecFails(s) ==
  LET S == Types[s.tid] IN
  Tag(s.st = 0 /\ s.bytes = Enc(S, s.v), "codec-bytes-in-thread")
  \cup Tag(s.st2 = 0 /\ s.v2 = s.v /\ s.used = Len(s.bytes) /\ s.size = Len(s.bytes), "codec-roundtrip-in-thread")

RECURSIVE Fold(_, _, _)
\* steps: sequence of steps with 0-based thread ids; tl: function thread -> slot -> value
Fold(steps, tl, i) ==
  IF i > Len(steps) THEN {}
  ELSE LET s == steps[i] IN
    IF s.op = "codec" THEN CodecFails(s) \cup Fold(steps, tl, i + 1)
    ELSE IF s.op = "io"       \* a reader / writer owned by the thread behaves as the sequential automaton says
    THEN {"in-thread:" \o w : w \in IOF!Fails(s)} \cup Fold(steps, tl, i + 1)
    ELSE IF s.op = "rpc"      \* RPC traffic on the thread's own connection must behave as in a sequential run
    THEN UnionOver(Len(s.calls), LAMBDA j : CallFails(Ifaces[s.iface], s.calls[j])) \cup Fold(steps, tl, i + 1)
    ELSE LET r == TLStep(tl, s.t + 1, [op |-> s.op, slot |-> s.slot + 1, val |-> s.val]) IN
         Tag(s.obs = r.obs, "thread-local:" \o s.op) \cup Fold(steps, r.tl, i + 1)

EmptyTl(n) == [t \in 1..n |-> [s \in 1..NSlots |-> NoneV]]
Fails(e) ==
  IF e.e \in {"UB", "Crash", "Exc", "Timeout", "BadCmd"} THEN {"abnormal"}
  ELSE IF e.e = "Race" THEN {"data-race"}
  ELSE IF e.e # "TL" THEN {}
  ELSE IF e.mode = "lockstep" THEN Fold(e.steps, EmptyTl(e.threads), 1)
  ELSE UnionOver(Len(e.per), LAMBDA t : Fold(e.per[t], EmptyTl(e.threads), 1))

Init == l = 1 /\ nrej = 0
Step ==
  /\ l <= Len(Log)
  /\ LET e == Log[l]
         why == Fails(e)
         ok == why = {} IN
     /\ (IF ok THEN TRUE ELSE PrintT("REJECT " \o ToJson([l |-> l, idx |-> e.idx, e |-> e.e, why |-> why])))
     /\ nrej' = IF ok THEN nrej ELSE nrej + 1
  /\ l' = l + 1
Done == l = Len(Log) + 1 /\ PrintT("DONE " \o ToJson([n |-> Len(Log), nrej |-> nrej])) /\ UNCHANGED vars
Next == Step \/ Done
Spec == Init /\ [][Next]_vars
=============================================================================
