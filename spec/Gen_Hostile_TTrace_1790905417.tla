---- MODULE Gen_Hostile_TTrace_1790905417 ----
EXTENDS Sequences, TLCExt, Toolbox, Naturals, TLC, Gen_Hostile

_expression ==
    LET Gen_Hostile_TEExpression == INSTANCE Gen_Hostile_TEExpression
    IN Gen_Hostile_TEExpression!expression
----

_trace ==
    LET Gen_Hostile_TETrace == INSTANCE Gen_Hostile_TETrace
    IN Gen_Hostile_TETrace!trace
----

_inv ==
    ~(
        TLCGet("level") = Len(_TETrace)
        /\
        i = (60)
    )
----

_init ==
    /\ i = _TETrace[1].i
----

_next ==
    /\ \E i,j \in DOMAIN _TETrace:
        /\ \/ /\ j = i + 1
              /\ i = TLCGet("level")
        /\ i  = _TETrace[i].i
        /\ i' = _TETrace[j].i

\* Uncomment the ASSUME below to write the states of the error trace
\* to the given file in Json format. Note that you can pass any tuple
\* to `JsonSerialize`. For example, a sub-sequence of _TETrace.
    \* ASSUME
    \*     LET J == INSTANCE Json
    \*         IN J!JsonSerialize("Gen_Hostile_TTrace_1790905417.json", _TETrace)

=============================================================================

 Note that you can extract this module `Gen_Hostile_TEExpression`
  to a dedicated file to reuse `expression` (the module in the 
  dedicated `Gen_Hostile_TEExpression.tla` file takes precedence 
  over the module `Gen_Hostile_TEExpression` below).

---- MODULE Gen_Hostile_TEExpression ----
EXTENDS Sequences, TLCExt, Toolbox, Naturals, TLC, Gen_Hostile

expression == 
    [
        \* To hide variables of the `Gen_Hostile` spec from the error trace,
        \* remove the variables below.  The trace will be written in the order
        \* of the fields of this record.
        i |-> i
        
        \* Put additional constant-, state-, and action-level expressions here:
        \* ,_stateNumber |-> _TEPosition
        \* ,_iUnchanged |-> i = i'
        
        \* Format the `i` variable as Json value.
        \* ,_iJson |->
        \*     LET J == INSTANCE Json
        \*     IN J!ToJson(i)
        
        \* Lastly, you may build expressions over arbitrary sets of states by
        \* leveraging the _TETrace operator.  For example, this is how to
        \* count the number of times a spec variable changed up to the current
        \* state in the trace.
        \* ,_iModCount |->
        \*     LET F[s \in DOMAIN _TETrace] ==
        \*         IF s = 1 THEN 0
        \*         ELSE IF _TETrace[s].i # _TETrace[s-1].i
        \*             THEN 1 + F[s-1] ELSE F[s-1]
        \*     IN F[_TEPosition - 1]
    ]

=============================================================================



Parsing and semantic processing can take forever if the trace below is long.
 In this case, it is advised to uncomment the module below to deserialize the
 trace from a generated binary file.

\*
\*---- MODULE Gen_Hostile_TETrace ----
\*EXTENDS IOUtils, TLC, Gen_Hostile
\*
\*trace == IODeserialize("Gen_Hostile_TTrace_1790905417.bin", TRUE)
\*
\*=============================================================================
\*

---- MODULE Gen_Hostile_TETrace ----
EXTENDS TLC, Gen_Hostile

trace == 
    <<
    ([i |-> 0]),
    ([i |-> 1]),
    ([i |-> 2]),
    ([i |-> 3]),
    ([i |-> 4]),
    ([i |-> 5]),
    ([i |-> 6]),
    ([i |-> 7]),
    ([i |-> 8]),
    ([i |-> 9]),
    ([i |-> 10]),
    ([i |-> 11]),
    ([i |-> 12]),
    ([i |-> 13]),
    ([i |-> 14]),
    ([i |-> 15]),
    ([i |-> 16]),
    ([i |-> 17]),
    ([i |-> 18]),
    ([i |-> 19]),
    ([i |-> 20]),
    ([i |-> 21]),
    ([i |-> 22]),
    ([i |-> 23]),
    ([i |-> 24]),
    ([i |-> 25]),
    ([i |-> 26]),
    ([i |-> 27]),
    ([i |-> 28]),
    ([i |-> 29]),
    ([i |-> 30]),
    ([i |-> 31]),
    ([i |-> 32]),
    ([i |-> 33]),
    ([i |-> 34]),
    ([i |-> 35]),
    ([i |-> 36]),
    ([i |-> 37]),
    ([i |-> 38]),
    ([i |-> 39]),
    ([i |-> 40]),
    ([i |-> 41]),
    ([i |-> 42]),
    ([i |-> 43]),
    ([i |-> 44]),
    ([i |-> 45]),
    ([i |-> 46]),
    ([i |-> 47]),
    ([i |-> 48]),
    ([i |-> 49]),
    ([i |-> 50]),
    ([i |-> 51]),
    ([i |-> 52]),
    ([i |-> 53]),
    ([i |-> 54]),
    ([i |-> 55]),
    ([i |-> 56]),
    ([i |-> 57]),
    ([i |-> 58]),
    ([i |-> 59]),
    ([i |-> 60])
    >>
----


=============================================================================

---- CONFIG Gen_Hostile_TTrace_1790905417 ----

INVARIANT
    _inv

CHECK_DEADLOCK
    \* CHECK_DEADLOCK off because of PROPERTY or INVARIANT above.
    FALSE

INIT
    _init

NEXT
    _next

CONSTANT
    _TETrace <- _trace

ALIAS
    _expression
=============================================================================
\* Generated on Fri Oct 02 01:43:38 UTC 2026