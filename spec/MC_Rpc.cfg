SPECIFICATION Spec
CONSTANTS Methods = {"a", "b", "c"} Bound = {"a", "b"} MaxCalls = 4
INVARIANTS InFrame OneHandlerPerSuccess ReturnIsHandlers OnlyBoundRun
CHECK_DEADLOCK FALSE
