-------------------------------- MODULE Wire --------------------------------
(***************************************************************************)
(* The libnop binary format as TLA+ operators, written from docs/format.md *)
(* and, where format.md leaves the C++ mapping open ("Implementation:      *)
(* TODO"), from the format comments at the top of include/nop/base/*.h.    *)
(* It mentions no identifier of the implementation.                        *)
(*                                                                         *)
(* Schemas S are records [k |-> kind, ...] (pool/types.json); abstract     *)
(* values are described in DESIGN.md Appendix D.1.                         *)
(***************************************************************************)
EXTENDS Bytes, TLC

\* ---- prefix bytes (format.md "Prefix Definitions") ----------------------
P_U8 == 128   P_U16 == 129  P_U32 == 130  P_U64 == 131
P_I8 == 132   P_I16 == 133  P_I32 == 134  P_I64 == 135
P_F32 == 136  P_F64 == 137
P_TAB == 181  P_ERR == 182  P_HND == 183  P_VAR == 184  P_STU == 185
P_ARY == 186  P_MAP == 187  P_BIN == 188  P_STR == 189  P_NIL == 190

\* ---- error categories (nop/status.h numbering, documented names) --------
E_Type == 1        \* UnexpectedEncodingType
E_HandleType == 2  \* UnexpectedHandleType
E_Variant == 3     \* UnexpectedVariantType
E_Length == 4      \* InvalidContainerLength
E_Members == 5     \* InvalidMemberCount
E_StrLen == 6      \* InvalidStringLength
E_Hash == 7        \* InvalidTableHash
E_HandleRef == 8   \* InvalidHandleReference
E_Dup == 11        \* DuplicateTableEntry
E_Limit == 12      \* ReadLimitReached (inside a bounded frame, and buffer readers)
E_Src == 100       \* the source itself is exhausted: the code is the reader kind's

\* ---- schema predicates --------------------------------------------------
IsIntLike(S) == S.k \in {"int", "enum"}
\* "integral types" of format.md: their homogeneous arrays use BIN
IsIntegral(S) == S.k \in {"int", "char", "bool"}
ElemSize(S) == IF S.k = "int" THEN S.w ELSE 1

RECURSIVE HasHandle(_)
HasHandle(S) ==
  CASE S.k = "hnd" -> TRUE
    [] S.k \in {"vec", "arr", "carr", "lbuf", "ref", "wrap", "opt"} -> HasHandle(S.e)
    [] S.k \in {"pair", "tup", "struct", "var"} -> \E i \in 1..Len(S.m) : HasHandle(S.m[i])
    [] S.k \in {"map", "umap"} -> HasHandle(S.key) \/ HasHandle(S.val)
    [] S.k = "res" -> HasHandle(S.e)
    [] S.k = "table" -> \E i \in 1..Len(S.ents) : S.ents[i].act /\ HasHandle(S.ents[i].e)
    [] OTHER -> FALSE

\* ---- integer class ------------------------------------------------------
\* smallest class able to hold the value (format.md "Integer Encoding Class")
EncUInt(word) ==
  IF UFits(word, 1) /\ word[1] < 128 THEN <<word[1]>>
  ELSE IF UFits(word, 1) THEN <<P_U8, word[1]>>
  ELSE IF UFits(word, 2) THEN <<P_U16>> \o Take(word, 2)
  ELSE IF UFits(word, 4) THEN <<P_U32>> \o Take(word, 4)
  ELSE <<P_U64>> \o Take(word, 8)

EncSInt(word) ==
  IF SFits(word, 1) /\ (word[1] < 128 \/ word[1] >= 192) THEN <<word[1]>>
  ELSE IF SFits(word, 1) THEN <<P_I8, word[1]>>
  ELSE IF SFits(word, 2) THEN <<P_I16>> \o Take(word, 2)
  ELSE IF SFits(word, 4) THEN <<P_I32>> \o Take(word, 4)
  ELSE <<P_I64>> \o Take(word, 8)

EncInt(word, signed) == IF signed THEN EncSInt(word) ELSE EncUInt(word)
EncNat(n) == EncUInt(WordOfNat(n, 8))     \* lengths and counts (UINT64 fields)

\* payload width of an integer-class prefix, 0 for fixints, -1 if not in the class
ClassWidth(p, signed) ==
  IF signed THEN
    (IF p < 128 \/ p >= 192 THEN 0 ELSE
     CASE p = P_I8 -> 1 [] p = P_I16 -> 2 [] p = P_I32 -> 4 [] p = P_I64 -> 8 [] OTHER -> -1)
  ELSE
    (IF p < 128 THEN 0 ELSE
     CASE p = P_U8 -> 1 [] p = P_U16 -> 2 [] p = P_U32 -> 4 [] p = P_U64 -> 8 [] OTHER -> -1)

\* "any encoding of equal or smaller range is allowed; an encoding of a
\*  larger range is not allowed, even if the value is in range"
AcceptsClass(p, w, signed) == ClassWidth(p, signed) >= 0 /\ ClassWidth(p, signed) <= w

\* format.md "Variant": the index field is INT64 (base/variant.h documents INT32: a doc/code
\* disagreement, DESIGN.md 7 D7).  The width is carried by the decoding context (c.viw) so that a
\* trace specification can tell apart rejections that are explained by this disagreement alone.
VarIndexWidth == 8

\* ---- results of decoding ------------------------------------------------
Ok(v, pos) == [ok |-> TRUE, v |-> v, pos |-> pos]
Fail(errs, at) == [ok |-> FALSE, errs |-> errs, at |-> at]

\* n more bytes can be delivered at pos under frame limit lim
Avail(bs, pos, lim, n) == n # Huge /\ pos + n <= lim /\ pos + n <= Len(bs)
TruncErr(bs, pos, lim, n) == IF n = Huge \/ pos + n > lim
                             THEN (IF lim = Inf THEN E_Src ELSE E_Limit) ELSE E_Src

\* an integer field of width w / signedness at pos
DecIntAt(bs, pos, lim, w, signed) ==
  IF ~Avail(bs, pos, lim, 1) THEN Fail({TruncErr(bs, pos, lim, 1)}, pos)
  ELSE LET p == bs[pos + 1] IN
    IF ~AcceptsClass(p, w, signed) THEN Fail({E_Type}, pos)
    ELSE LET cw == ClassWidth(p, signed) IN
      IF cw = 0 THEN Ok(IF signed THEN SignExt(<<p>>, w) ELSE ZeroExt(<<p>>, w), pos + 1)
      ELSE IF ~Avail(bs, pos + 1, lim, cw) THEN Fail({TruncErr(bs, pos + 1, lim, cw)}, pos + 1)
      ELSE LET raw == SubSeq(bs, pos + 2, pos + 1 + cw) IN
           Ok(IF signed THEN SignExt(raw, w) ELSE ZeroExt(raw, w), pos + 1 + cw)

\* a UINT64 length / count / id / hash field
DecU64At(bs, pos, lim) == DecIntAt(bs, pos, lim, 8, FALSE)

\* ---- encoder ------------------------------------------------------------
(* EncR(S, v, ctx, k): ctx = [mode |-> "real" | "est", refs |-> seq of words]. *)
(* In mode "est" a handle reference occupies 9 bytes ("as though I64") and    *)
(* table entries are not padded: Len of the result is the documented size     *)
(* estimate.  k is the index of the next out-of-band reference.  Result:      *)
(* [b |-> bytes, k |-> next k, push |-> handle values pushed, err |-> 0 | 4]. *)
ER(b, k, push, err) == [b |-> b, k |-> k, push |-> push, err |-> err]

RECURSIVE EncR(_, _, _, _), EncSeq(_, _, _, _, _), EncMembers(_, _, _, _, _), EncMap(_, _, _, _, _), EncEntries(_, _, _, _, _)

\* elements i..Len(vs) of a homogeneous sequence
EncSeq(S, vs, ctx, k, i) ==
  IF i > Len(vs) THEN ER(<<>>, k, <<>>, 0)
  ELSE LET h == EncR(S, vs[i], ctx, k) IN
       IF h.err # 0 THEN h
       ELSE LET t == EncSeq(S, vs, ctx, h.k, i + 1) IN
            ER(h.b \o t.b, t.k, h.push \o t.push, t.err)

\* members i..Len(Ss) of a heterogeneous sequence
EncMembers(Ss, vs, ctx, k, i) ==
  IF i > Len(Ss) THEN ER(<<>>, k, <<>>, 0)
  ELSE LET h == EncR(Ss[i], vs[i], ctx, k) IN
       IF h.err # 0 THEN h
       ELSE LET t == EncMembers(Ss, vs, ctx, h.k, i + 1) IN
            ER(h.b \o t.b, t.k, h.push \o t.push, t.err)

EncMap(S, kvs, ctx, k, i) ==
  IF i > Len(kvs) THEN ER(<<>>, k, <<>>, 0)
  ELSE LET a == EncR(S.key, kvs[i][1], ctx, k) IN
       IF a.err # 0 THEN a
       ELSE LET b == EncR(S.val, kvs[i][2], ctx, a.k) IN
       IF b.err # 0 THEN ER(a.b \o b.b, b.k, a.push \o b.push, b.err)
       ELSE LET t == EncMap(S, kvs, ctx, b.k, i + 1) IN
            ER(a.b \o b.b \o t.b, t.k, a.push \o b.push \o t.push, t.err)

\* number of entries that are written: active and non-empty
ActiveCount(S, v) == Cardinality({i \in 1..Len(S.ents) : S.ents[i].act /\ v.t[i].p})

EncEntries(S, v, ctx, k, i) ==
  IF i > Len(S.ents) THEN ER(<<>>, k, <<>>, 0)
  ELSE IF ~(S.ents[i].act /\ v.t[i].p) THEN EncEntries(S, v, ctx, k, i + 1)   \* empty / deleted: omitted
  ELSE LET est  == EncR(S.ents[i].e, v.t[i].v, [ctx EXCEPT !.mode = "est"], k)
           real == EncR(S.ents[i].e, v.t[i].v, ctx, k)
           decl == Len(est.b)                   \* declared size = the size estimate
           body == IF ctx.mode = "est" THEN est.b
                   ELSE real.b \o [j \in 1..(decl - Len(real.b)) |-> AnyByte]   \* padding, content unspecified
           hd   == EncUInt(S.ents[i].id) \o EncNat(decl)
       IN IF real.err # 0 THEN ER(hd \o real.b, real.k, real.push, real.err)
          ELSE LET t == EncEntries(S, v, ctx, real.k, i + 1) IN
               ER(hd \o body \o t.b, t.k, real.push \o t.push, t.err)

EncR(S, v, ctx, k) ==
  CASE S.k = "bool" -> ER(<<v[1]>>, k, <<>>, 0)
    [] S.k = "char" -> ER(EncUInt(v), k, <<>>, 0)
    [] S.k \in {"int", "enum"} -> ER(EncInt(v, S.s), k, <<>>, 0)
    [] S.k = "flt" -> ER(<<IF S.w = 4 THEN P_F32 ELSE P_F64>> \o v, k, <<>>, 0)
    [] S.k = "str" -> ER(<<P_STR>> \o EncNat(Len(v.b)) \o v.b, k, <<>>, 0)
    [] S.k \in {"vec", "arr", "carr"} ->
         IF IsIntegral(S.e)
         THEN ER(<<P_BIN>> \o EncNat(Len(v.n) * ElemSize(S.e)) \o FlattenWords(v.n, ElemSize(S.e)), k, <<>>, 0)
         ELSE LET t == EncSeq(S.e, v.n, ctx, k, 1) IN
              ER(<<P_ARY>> \o EncNat(Len(v.n)) \o t.b, t.k, t.push, t.err)
    [] S.k = "lbuf" ->
         \* a size member above the capacity must be rejected by the writer
         LET cnt == NatOf(IF S.ss THEN SignExt(v.c, 8) ELSE ZeroExt(v.c, 8)) IN
         IF ~S.unb /\ (cnt = Huge \/ cnt > S.n) THEN ER(<<>>, k, <<>>, E_Length)
         ELSE IF IsIntegral(S.e)
         THEN ER(<<P_BIN>> \o EncNat(Len(v.n) * ElemSize(S.e)) \o FlattenWords(v.n, ElemSize(S.e)), k, <<>>, 0)
         ELSE LET t == EncSeq(S.e, v.n, ctx, k, 1) IN
              ER(<<P_ARY>> \o EncNat(Len(v.n)) \o t.b, t.k, t.push, t.err)
    [] S.k \in {"pair", "tup"} ->
         LET t == EncMembers(S.m, v.m, ctx, k, 1) IN
         ER(<<P_ARY>> \o EncNat(Len(S.m)) \o t.b, t.k, t.push, t.err)
    [] S.k = "struct" ->
         LET t == EncMembers(S.m, v.m, ctx, k, 1) IN
         ER(<<P_STU>> \o EncNat(Len(S.m)) \o t.b, t.k, t.push, t.err)
    [] S.k \in {"map", "umap"} ->
         LET t == EncMap(S, v.kv, ctx, k, 1) IN
         ER(<<P_MAP>> \o EncNat(Len(v.kv)) \o t.b, t.k, t.push, t.err)
    [] S.k \in {"ref", "wrap"} -> EncR(S.e, v, ctx, k)
    [] S.k = "opt" -> IF Len(v.o) = 0 THEN ER(<<P_NIL>>, k, <<>>, 0) ELSE EncR(S.e, v.o[1], ctx, k)
    [] S.k = "res" ->
         IF v.r = "val" THEN EncR(S.e, v.v, ctx, k)
         ELSE ER(<<P_ERR>> \o EncInt(v.e, S.err.s), k, <<>>, 0)
    [] S.k = "emptyvar" -> ER(<<P_NIL>>, k, <<>>, 0)
    [] S.k = "var" ->
         IF v.i = <<255, 255, 255, 255>> THEN ER(<<P_VAR>> \o EncSInt(v.i) \o <<P_NIL>>, k, <<>>, 0)
         ELSE LET t == EncR(S.m[NatOf(v.i) + 1], v.v, ctx, k) IN
              ER(<<P_VAR>> \o EncSInt(v.i) \o t.b, t.k, t.push, t.err)
    [] S.k = "hnd" ->
         LET ref == IF ctx.mode = "est" THEN <<P_I64, 0, 0, 0, 0, 0, 0, 0, 0>>
                    ELSE IF k <= Len(ctx.refs) THEN EncSInt(ctx.refs[k])
                    ELSE <<P_I64, AnyByte, AnyByte, AnyByte, AnyByte, AnyByte, AnyByte, AnyByte, AnyByte>> IN
         ER(<<P_HND>> \o EncInt(S.tv, S.tt.s) \o ref, k + 1, <<v.h>>, 0)
    [] S.k = "table" ->
         LET t == EncEntries(S, v, ctx, k, 1) IN
         ER(<<P_TAB>> \o EncUInt(S.hash) \o EncNat(ActiveCount(S, v)) \o t.b, t.k, t.push, t.err)

RealCtx(refs) == [mode |-> "real", refs |-> refs]
EstCtx == [mode |-> "est", refs |-> <<>>]
Enc(S, v) == EncR(S, v, RealCtx(<<>>), 1).b
\* the documented size estimate: exact for handle-free values, "reference as I64" otherwise
SizeEst(S, v) == Len(EncR(S, v, EstCtx, 1).b)

\* ---- decoder ------------------------------------------------------------
(* Dec(S, c, pos, lim): c = [bs |-> source, ht |-> handle table (function    *)
(* from reference words to handle-value words)].  pos = bytes consumed so far.*)
(* lim = innermost byte-frame limit (Inf when none).                          *)
RECURSIVE Dec(_, _, _, _), DecSeq(_, _, _, _, _, _), DecMembers(_, _, _, _, _, _), DecMap(_, _, _, _, _, _),
          DecEntries(_, _, _, _, _, _)

\* n elements of schema S; acc = values so far
DecSeq(S, c, pos, lim, n, acc) ==
  IF n = 0 THEN Ok(acc, pos)
  ELSE LET r == Dec(S, c, pos, lim) IN
       IF ~r.ok THEN r ELSE DecSeq(S, c, r.pos, lim, n - 1, Append(acc, r.v))

DecMembers(Ss, c, pos, lim, i, acc) ==
  IF i > Len(Ss) THEN Ok(acc, pos)
  ELSE LET r == Dec(Ss[i], c, pos, lim) IN
       IF ~r.ok THEN r ELSE DecMembers(Ss, c, r.pos, lim, i + 1, Append(acc, r.v))

DecMap(S, c, pos, lim, n, acc) ==
  IF n = 0 THEN Ok(acc, pos)
  ELSE LET a == Dec(S.key, c, pos, lim) IN
       IF ~a.ok THEN a
       ELSE LET b == Dec(S.val, c, a.pos, lim) IN
            IF ~b.ok THEN b ELSE DecMap(S, c, b.pos, lim, n - 1, Append(acc, <<a.v, b.v>>))

\* a count that cannot be satisfied anyway is capped so that recursion stays finite:
\* every element occupies at least one byte
CapCount(c, n) == IF n = Huge \/ n > Len(c.bs) + 1 THEN Len(c.bs) + 1 ELSE n

EntryIndex(S, id) == IF \E i \in 1..Len(S.ents) : S.ents[i].id = id
                     THEN CHOOSE i \in 1..Len(S.ents) : S.ents[i].id = id ELSE 0

\* n more entries; tv = table value so far (sequence of [id, p, v] in declaration order)
DecEntries(S, c, pos, lim, n, tv) ==
  IF n = 0 THEN Ok([t |-> tv], pos)
  ELSE LET idr == DecU64At(c.bs, pos, lim) IN
  IF ~idr.ok THEN idr
  ELSE LET i == EntryIndex(S, idr.v) IN
  IF i # 0 /\ S.ents[i].act /\ tv[i].p THEN Fail({E_Dup}, idr.pos)
  ELSE LET szr == DecU64At(c.bs, idr.pos, lim) IN
  IF ~szr.ok THEN szr
  ELSE LET sz == NatOf(szr.v) IN
  IF i = 0 \/ ~S.ents[i].act
  THEN \* unknown or deleted entry: the whole byte string is skipped
       IF ~Avail(c.bs, szr.pos, lim, sz) THEN Fail({TruncErr(c.bs, szr.pos, lim, sz)}, szr.pos)
       ELSE DecEntries(S, c, szr.pos + sz, lim, n - 1, tv)
  ELSE \* the value must decode inside the declared byte frame; the rest is padding
       LET frame == IF sz = Huge THEN lim ELSE Min(lim, szr.pos + sz)
           r == Dec(S.ents[i].e, c, szr.pos, frame) IN
       IF ~r.ok THEN r
       ELSE IF sz = Huge \/ ~Avail(c.bs, szr.pos, lim, sz)
            THEN Fail({TruncErr(c.bs, szr.pos, lim, sz)}, r.pos)     \* padding runs out of data
       ELSE DecEntries(S, c, szr.pos + sz, lim, n - 1,
                       [tv EXCEPT ![i] = [id |-> S.ents[i].id, p |-> TRUE, v |-> r.v]])

EmptyTable(S) == [i \in 1..Len(S.ents) |-> [id |-> S.ents[i].id, p |-> FALSE]]

\* the prefix byte at pos, or a failure
Dec(S, c, pos, lim) ==
  LET bs == c.bs IN
  IF S.k \in {"ref", "wrap"} THEN Dec(S.e, c, pos, lim)
  ELSE IF ~Avail(bs, pos, lim, 1) THEN Fail({TruncErr(bs, pos, lim, 1)}, pos)
  ELSE LET p == bs[pos + 1] IN
  CASE S.k = "bool" -> IF p \in {0, 1} THEN Ok(<<p>>, pos + 1) ELSE Fail({E_Type}, pos)
    [] S.k = "char" -> DecIntAt(bs, pos, lim, 1, FALSE)
    [] S.k \in {"int", "enum"} -> DecIntAt(bs, pos, lim, S.w, S.s)
    [] S.k = "flt" ->
         IF p # (IF S.w = 4 THEN P_F32 ELSE P_F64) THEN Fail({E_Type}, pos)
         ELSE IF ~Avail(bs, pos + 1, lim, S.w) THEN Fail({TruncErr(bs, pos + 1, lim, S.w)}, pos + 1)
         ELSE Ok(SubSeq(bs, pos + 2, pos + 1 + S.w), pos + 1 + S.w)
    [] S.k = "str" ->
         IF p # P_STR THEN Fail({E_Type}, pos)
         ELSE LET lr == DecU64At(bs, pos + 1, lim) IN
         IF ~lr.ok THEN lr
         ELSE LET n == NatOf(lr.v)
                  badmul == IF n = Huge THEN (lr.v[1] % S.cw) # 0 ELSE (n % S.cw) # 0
                  short == ~Avail(bs, lr.pos, lim, n) IN
         IF badmul \/ short
         THEN Fail((IF badmul THEN {E_StrLen} ELSE {}) \cup (IF short THEN {TruncErr(bs, lr.pos, lim, n)} ELSE {}), lr.pos)
         ELSE Ok([cw |-> S.cw, b |-> SubSeq(bs, lr.pos + 1, lr.pos + n)], lr.pos + n)
    [] S.k \in {"vec", "arr", "carr", "lbuf"} ->
         IF IsIntegral(S.e)
         THEN IF p # P_BIN THEN Fail({E_Type}, pos)
              ELSE LET lr == DecU64At(bs, pos + 1, lim) IN
              IF ~lr.ok THEN lr
              ELSE LET n == NatOf(lr.v)
                       sz == ElemSize(S.e)
                       badlen == (IF n = Huge THEN (lr.v[1] % sz) # 0 ELSE (n % sz) # 0)
                                 \/ (S.k \in {"arr", "carr"} /\ n # S.n * sz)
                                 \/ (S.k = "lbuf" /\ ~S.unb /\ (n = Huge \/ n > S.n * sz))
                       short == ~Avail(bs, lr.pos, lim, n) IN
              IF badlen \/ short
              THEN Fail((IF badlen THEN {E_Length} ELSE {}) \cup (IF short THEN {TruncErr(bs, lr.pos, lim, n)} ELSE {}), lr.pos)
              ELSE LET ws == SplitWords(bs, lr.pos, n \div sz, sz) IN
                   Ok(IF S.k = "lbuf" THEN [n |-> ws, c |-> WordOfNat(n \div sz, S.sw)] ELSE [n |-> ws], lr.pos + n)
         ELSE IF p # P_ARY THEN Fail({E_Type}, pos)
              ELSE LET lr == DecU64At(bs, pos + 1, lim) IN
              IF ~lr.ok THEN lr
              ELSE LET n == NatOf(lr.v) IN
              IF (S.k \in {"arr", "carr"} /\ n # S.n) \/ (S.k = "lbuf" /\ ~S.unb /\ (n = Huge \/ n > S.n))
              THEN Fail({E_Length}, lr.pos)
              ELSE LET r == DecSeq(S.e, c, lr.pos, lim, CapCount(c, n), <<>>) IN
                   IF ~r.ok THEN r
                   ELSE Ok(IF S.k = "lbuf" THEN [n |-> r.v, c |-> WordOfNat(n, S.sw)] ELSE [n |-> r.v], r.pos)
    [] S.k \in {"pair", "tup", "struct"} ->
         IF p # (IF S.k = "struct" THEN P_STU ELSE P_ARY) THEN Fail({E_Type}, pos)
         ELSE LET lr == DecU64At(bs, pos + 1, lim) IN
         IF ~lr.ok THEN lr
         ELSE IF NatOf(lr.v) # Len(S.m) THEN Fail({IF S.k = "struct" THEN E_Members ELSE E_Length}, lr.pos)
         ELSE LET r == DecMembers(S.m, c, lr.pos, lim, 1, <<>>) IN
              IF ~r.ok THEN r ELSE Ok([m |-> r.v], r.pos)
    [] S.k \in {"map", "umap"} ->
         IF p # P_MAP THEN Fail({E_Type}, pos)
         ELSE LET lr == DecU64At(bs, pos + 1, lim) IN
         IF ~lr.ok THEN lr
         ELSE LET r == DecMap(S, c, lr.pos, lim, CapCount(c, NatOf(lr.v)), <<>>) IN
              IF ~r.ok THEN r ELSE Ok([kv |-> r.v], r.pos)
    [] S.k = "opt" ->
         IF p = P_NIL THEN Ok([o |-> <<>>], pos + 1)
         ELSE LET r == Dec(S.e, c, pos, lim) IN
              IF ~r.ok THEN r ELSE Ok([o |-> <<r.v>>], r.pos)
    [] S.k = "res" ->
         IF p = P_ERR
         THEN LET r == DecIntAt(bs, pos + 1, lim, S.err.w, S.err.s) IN
              IF ~r.ok THEN r
              ELSE IF AllZeroFrom(r.v, 1) THEN Ok([r |-> "none", e |-> r.v], r.pos)
              ELSE Ok([r |-> "err", e |-> r.v], r.pos)
         ELSE LET r == Dec(S.e, c, pos, lim) IN
              IF ~r.ok THEN r ELSE Ok([r |-> "val", v |-> r.v], r.pos)
    [] S.k = "emptyvar" -> IF p = P_NIL THEN Ok([ev |-> TRUE], pos + 1) ELSE Fail({E_Type}, pos)
    [] S.k = "var" ->
         IF p # P_VAR THEN Fail({E_Type}, pos)
         ELSE LET ir == DecIntAt(bs, pos + 1, lim, c.viw, TRUE) IN
         IF ~ir.ok THEN ir
         ELSE LET iw == Take(ir.v, 4) IN
         IF ~SFits(ir.v, 4) THEN Fail({E_Variant}, ir.pos)
         ELSE IF iw = <<255, 255, 255, 255>>
         THEN (IF ~Avail(bs, ir.pos, lim, 1) THEN Fail({TruncErr(bs, ir.pos, lim, 1)}, ir.pos)
               ELSE IF bs[ir.pos + 1] = P_NIL THEN Ok([i |-> iw], ir.pos + 1) ELSE Fail({E_Type}, ir.pos))
         ELSE IF IsNeg(iw) \/ NatOf(iw) = Huge \/ NatOf(iw) >= Len(S.m) THEN Fail({E_Variant}, ir.pos)
         ELSE LET r == Dec(S.m[NatOf(iw) + 1], c, ir.pos, lim) IN
              IF ~r.ok THEN r ELSE Ok([i |-> iw, v |-> r.v], r.pos)
    [] S.k = "hnd" ->
         IF p # P_HND THEN Fail({E_Type}, pos)
         ELSE LET tr == DecIntAt(bs, pos + 1, lim, S.tt.w, S.tt.s) IN
         IF ~tr.ok THEN tr
         ELSE IF tr.v # S.tv THEN Fail({E_HandleType}, tr.pos)
         ELSE LET rr == DecIntAt(bs, tr.pos, lim, 8, TRUE) IN
         IF ~rr.ok THEN rr
         ELSE IF rr.v = <<255, 255, 255, 255, 255, 255, 255, 255>> THEN Ok([h |-> S.ev], rr.pos)
         ELSE IF rr.v \in DOMAIN c.ht THEN Ok([h |-> c.ht[rr.v]], rr.pos)
         ELSE Fail({E_HandleRef}, rr.pos)
    [] S.k = "table" ->
         IF p # P_TAB THEN Fail({E_Type}, pos)
         ELSE LET hr == DecU64At(bs, pos + 1, lim) IN
         IF ~hr.ok THEN hr
         ELSE IF hr.v # S.hash THEN Fail({E_Hash}, hr.pos)
         ELSE LET nr == DecU64At(bs, hr.pos, lim) IN
         IF ~nr.ok THEN nr
         ELSE DecEntries(S, c, nr.pos, lim, CapCount(c, NatOf(nr.v)), EmptyTable(S))

Src(bs) == [bs |-> bs, ht |-> <<>>, viw |-> VarIndexWidth]
DecTop(S, bs) == Dec(S, Src(bs), 0, Inf)
=============================================================================
