----------------------------- MODULE MC_Threads -----------------------------
(***************************************************************************)
(* All interleavings of N threads, each running one of a few programs of   *)
(* ThreadLocal operations on shared slot *types*.  Invariants: isolation,  *)
(* and every thread's observations equal those of its sequential run.      *)
(* With Emitting the schedules are printed and replayed by real threads in *)
(* lock step.                                                              *)
(***************************************************************************)
EXTENDS Threads, Json

CONSTANTS NThreads, Emitting
Slots == 1..3
Programs == <<
  <<[op |-> "init", slot |-> 1, val |-> 11], [op |-> "initialize", slot |-> 1, val |-> 12], [op |-> "clear", slot |-> 1, val |-> 0], [op |-> "init", slot |-> 1, val |-> 13]>>,
  <<[op |-> "init", slot |-> 2, val |-> 21], [op |-> "set", slot |-> 1, val |-> 22], [op |-> "init", slot |-> 1, val |-> 23]>>,
  <<[op |-> "set", slot |-> 3, val |-> 31], [op |-> "clear", slot |-> 3, val |-> 0], [op |-> "initialize", slot |-> 3, val |-> 32], [op |-> "init", slot |-> 2, val |-> 33]>>,
  <<[op |-> "init", slot |-> 1, val |-> 41], [op |-> "codec", slot |-> 1, val |-> 0], [op |-> "init", slot |-> 3, val |-> 42]>>
>>
Threads == 1..NThreads

VARIABLES tl, prog, pcs, obs, sched
vars == <<tl, prog, pcs, obs, sched>>

Init == /\ tl = [t \in Threads |-> [s \in Slots |-> NoneV]]
        /\ prog \in [Threads -> 1..Len(Programs)]
        /\ pcs = [t \in Threads |-> 1]
        /\ obs = [t \in Threads |-> <<>>]
        /\ sched = <<>>
StepT(t) ==
  /\ pcs[t] <= Len(Programs[prog[t]])
  /\ LET op == Programs[prog[t]][pcs[t]]
         r == TLStep(tl, t, op) IN
     /\ tl' = r.tl
     /\ obs' = [obs EXCEPT ![t] = Append(@, r.obs)]
     /\ sched' = Append(sched, [t |-> t - 1, op |-> op.op, slot |-> op.slot - 1, val |-> op.val])
  /\ pcs' = [pcs EXCEPT ![t] = @ + 1]
  /\ UNCHANGED prog
Next == \E t \in Threads : StepT(t)
Spec == Init /\ [][Next]_vars

\* a step of one thread leaves every other thread's slots untouched
Isolation == [][\A t \in Threads : (pcs'[t] = pcs[t]) => tl'[t] = tl[t]]_vars

\* sequential run of a program on a private store
RECURSIVE SeqObs(_, _, _)
SeqObs(p, i, st) ==
  IF i > Len(p) THEN <<>>
  ELSE LET r == TLStep(<<st>>, 1, p[i]) IN <<r.obs>> \o SeqObs(p, i + 1, r.tl[1])
Finished == \A t \in Threads : pcs[t] > Len(Programs[prog[t]])
ScheduleIndependent ==
  \A t \in Threads : obs[t] = SubSeq(SeqObs(Programs[prog[t]], 1, [s \in Slots |-> NoneV]), 1, Len(obs[t]))
Emit == (Emitting /\ Finished) => PrintT(ToJson(sched))
=============================================================================
