-------------------------------- MODULE FdEnv --------------------------------
(***************************************************************************)
(* FdReader::Read(begin, end) and FdWriter::Write(begin, end) at the grain *)
(* of system calls, with the environment's choices made explicit (C17).    *)
(*                                                                         *)
(* IO.tla describes a reader or writer by what one *call* does; for the    *)
(* descriptor classes a call is a loop of read() / write() system calls,   *)
(* and what each of them does is up to the environment:                    *)
(*   - it transfers at least one and at most the requested number of       *)
(*     bytes (a pipe, a socket, a terminal deliver what they have),        *)
(*   - it fails with EINTR before transferring anything (a signal handler  *)
(*     installed without SA_RESTART ran),                                  *)
(*   - read() returns 0 at end of file, write() returns 0 when the sink    *)
(*     takes nothing,                                                      *)
(*   - it fails with another error.                                        *)
(* The library (utility/fd_reader.h, fd_writer.h) issues one system call   *)
(* per byte, retries after EINTR, maps 0 to ReadLimitReached /             *)
(* WriteLimitReached and every other failure to IOError.                   *)
(*                                                                         *)
(* Checked here (MC_FdEnv): whatever the environment chooses, a block call *)
(* that returns OK has moved exactly the next n bytes in order, a call     *)
(* that fails has moved a prefix of them, and - if the environment reports *)
(* no error - the status is the one IO.tla's RStep / WStep give for kind   *)
(* "fd".  This is what allows the traces of descriptors with bursts, short *)
(* counts and EINTR (kinds fdburst, fdintr of the executor) to be recorded *)
(* with kind "fd" and judged by the same contract: the environment's       *)
(* choices are stuttering steps of IO.tla.                                 *)
(*                                                                         *)
(* The loop is parameterised by Ask, the number of bytes one system call   *)
(* asks for (the library: 1), so that the same argument is checked for a   *)
(* bulk loop that continues where the last call stopped.                   *)
(***************************************************************************)
EXTENDS Naturals, Sequences, TLC

CONSTANTS MaxLen,      \* sizes up to MaxLen are explored
          MaxIntr      \* bound on consecutive EINTR results (the loop itself has none)

OK == 0  ReadLimit == 12  WriteLimit == 13  IOErr == 16
Running == 99

VARIABLES par,       \* parameters of the call, chosen initially and never changed:
                     \*   len  reader: bytes the descriptor will deliver; writer: bytes the sink accepts before write() returns 0
                     \*   n    size of the block transfer under test
                     \*   ask  bytes requested per system call (the library: 1)
          side,      \* "r" | "w"
          moved,     \* bytes transferred so far by this call, in order
          st,        \* Running, or the status the call returned
          intr,      \* consecutive EINTR results
          enverr     \* the environment reported an error other than EINTR
vars == <<par, side, moved, st, intr, enverr>>

Min(a, b) == IF a < b THEN a ELSE b
N == par.n
Ask == par.ask
\* the bytes in question: what the descriptor holds (reader), what the caller hands over (writer)
Data == [i \in 1..(IF side = "r" THEN par.len ELSE par.n) |-> 16 + i]
Want == N - Len(moved)                       \* what the loop still has to move
\* what the source / sink can still provide for this call
Avail == par.len - Len(moved)

Init == /\ par \in [len : 0..MaxLen, n : 0..MaxLen, ask : 1..MaxLen]
        /\ side \in {"r", "w"} /\ moved = <<>> /\ st = Running /\ intr = 0 /\ enverr = FALSE

\* the loop has moved everything: the call returns OK
Finish == st = Running /\ Want = 0 /\ st' = OK /\ UNCHANGED <<par, side, moved, intr, enverr>>

\* one system call asking for Min(Ask, Want) bytes; the environment transfers k of them, 1 <= k
Transfer ==
  /\ st = Running /\ Want > 0 /\ Avail > 0
  /\ \E k \in 1..Min(Min(Ask, Want), Avail) :
       moved' = moved \o SubSeq(Data, Len(moved) + 1, Len(moved) + k)
  /\ intr' = 0
  /\ UNCHANGED <<par, side, st, enverr>>

\* the system call returns 0: end of file / the sink takes nothing more
Zero ==
  /\ st = Running /\ Want > 0 /\ Avail = 0
  /\ st' = IF side = "r" THEN ReadLimit ELSE WriteLimit
  /\ UNCHANGED <<par, side, moved, intr, enverr>>

\* EINTR before anything was transferred: the loop repeats the same call
Interrupted ==
  /\ st = Running /\ Want > 0 /\ intr < MaxIntr
  /\ intr' = intr + 1
  /\ UNCHANGED <<par, side, moved, st, enverr>>

\* any other failure
Failed ==
  /\ st = Running /\ Want > 0
  /\ st' = IOErr /\ enverr' = TRUE
  /\ UNCHANGED <<par, side, moved, intr>>

Next == Finish \/ Transfer \/ Zero \/ Interrupted \/ Failed
Spec == Init /\ [][Next]_vars

\* ---- properties ------------------------------------------------------------------
TypeOK == st \in {Running, OK, ReadLimit, WriteLimit, IOErr} /\ Len(moved) <= N /\ intr \in 0..MaxIntr

\* bytes arrive / leave in order, without gaps or repetitions, whatever the sizes of the pieces
InOrder == moved = SubSeq(Data, 1, Len(moved))
\* OK means the whole block
OkIsComplete == st = OK => Len(moved) = N
\* a limit is reported only when the source is exhausted / the sink is full, and everything before it was moved
LimitIsReal == st \in {ReadLimit, WriteLimit} => Avail = 0 /\ Len(moved) < N
ErrorIsReal == st = IOErr <=> enverr

\* the status IO.tla gives a block transfer of n bytes on kind "fd" (reader over Data; writer with unbounded room is the
\* IO.tla kind "fd", a sink that takes par.len bytes the kind "fdpart")
ContractStatus ==
  IF side = "r" THEN (IF N <= par.len THEN OK ELSE ReadLimit)
  ELSE (IF N <= par.len THEN OK ELSE WriteLimit)
AgreesWithContract == (st # Running /\ ~enverr) => st = ContractStatus

\* the loop cannot run for ever once the environment stops interrupting it: every behaviour in which EINTR is not the
\* only thing that ever happens reaches a final status (checked as: no deadlock other than in a final state)
Terminal == st # Running
NoStuckState == Terminal \/ ENABLED Next
=============================================================================
